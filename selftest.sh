#!/bin/sh
exec python3 "$(dirname "$0")/selftest.py" "$@"
