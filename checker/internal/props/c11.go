package props

import (
	"go/token"
	"go/types"
	"sort"
	"strings"

	"golang.org/x/tools/go/ssa"

	"verif/checker/internal/an"
	"verif/checker/internal/report"
)

const (
	gateT     = "L/core.gateImpl"
	condWait  = "sync.Cond.Wait"
	condBcast = "sync.Cond.Broadcast"
	condSig   = "sync.Cond.Signal"
)

func init() {
	register(&Prop{
		Spec: report.Spec{
			ID: "C11",
			Explanation: "Structural monitor discipline of the counting latch (core.gateImpl) and of the flow objects built from it, decided for every method and every path: " +
				"(1) all latch state is accessed only while the latch mutex is held, each method being one critical section; (2) the only Cond.Wait sits in a loop guarded by the full predicate 'arrived != count && !canceled' and success is returned only on the not-cancelled edge after that loop; " +
				"(3) every store that can turn the wait predicate from false to true is followed by Broadcast on every path (signal-on-change), stores that cannot are exempted one by one with the invariant that justifies it; " +
				"(4) the refusing returns (ErrGateIntegrity) are reached with no store executed; (5) cancellation is sticky: Reset re-arms only when not cancelled and only Clear un-cancels; " +
				"(6) the flow objects fan Cancel/Clear/InitializeBarriers out to every gate field, pair each arrival with the await on the same gate, and construct the gates with the documented initial counts. " +
				"Added after the blind rounds: the signal-on-change classification knows when arrived <= count may be broken; Clear re-initialises every field unconditionally; the deadline wait returns the waiter's result or the timeout error. " +
				"NOT decided: that the sequential semantics of each method equals the abstract latch (needs symbolic execution), fairness, and the behaviour of sync.Cond itself.",
			RuleText:    "obligations are enumerated from the type-checked program: one per (gate method x rule), per (store to a predicate field), per (flow struct x fan-out method x Gate-typed field), per arrival/await pair, per NewGate call; an obligation is non-trivial when it inspected at least one instruction or field",
			Assumptions: append([]string{"invariant arrived <= count of gateImpl (established by the WalkThrough/SetCount refusals checked here) is used to exempt stores that move away from the wait predicate"}, trusted...),
			MinObs:      60,
		},
		Run: runC11,
	})
}

func runC11(c *report.Ctx) {
	checkGatePrimitive(c)
	// ---- (6) flow objects --------------------------------------------------------
	c.Clause("6 flow fan-out")
	checkFlow(c, "initFlowSynchronizationImpl", []string{"CancelWithError", "Clear"}, map[string]string{"CancelWithError": "CancelWithError", "Clear": "Clear"},
		[][]string{ // arrival, await, optional set-count, optional extra awaiter
			{"RuntimeReady", "AwaitRuntimeReady", ""},
			{"RuntimeRestoreReady", "AwaitRuntimeRestoreReady", ""},
			{"AgentReady", "AwaitAgentsReady", "SetAgentsReadyCount"},
			{"ExternalAgentRegistered", "AwaitExternalAgentsRegistered", "SetExternalAgentsRegisterCount"},
		})
	checkFlow(c, "invokeFlowSynchronizationImpl", []string{"CancelWithError", "Clear", "InitializeBarriers"}, map[string]string{"CancelWithError": "CancelWithError", "Clear": "Clear", "InitializeBarriers": "Reset"},
		[][]string{
			{"RuntimeReady", "AwaitRuntimeReady", ""},
			{"RuntimeResponse", "AwaitRuntimeResponse", ""},
			{"AgentReady", "AwaitAgentsReady", "SetAgentsReadyCount"},
		})
	checkGateCounts(c)
	checkDeadlineAwait(c)
}

// checkGatePrimitive holds the rules on the counting latch itself (clauses 1-5). The init barrier (C03), the
// invoke barrier (C04) and the truthfulness of the init status (C15) are reduced to it, so those checks run it too.
func checkGatePrimitive(c *report.Ctx) {
	methods := methodsOf(c, "L/core", "gateImpl")
	if methods == nil {
		return
	}
	fields := structFields(c, "L/core", "gateImpl")
	condField := ""
	var stateFields []string
	for _, f := range fields {
		if strings.HasSuffix(f.Type().String(), "sync.Cond") {
			condField = f.Name()
		} else {
			stateFields = append(stateFields, f.Name())
		}
	}
	if condField == "" {
		c.Unresolved("ANCHOR", gateT+".cond", "gateImpl has no *sync.Cond field")
		return
	}
	// the latch mutex is the condition variable's L; when the constructor builds the condition on a mutex field of the
	// latch itself (sync.NewCond(&g.mu)), that field is the same mutex under a second name
	mutexField := ""
	if ctor := c.P.Func("L/core", "NewGate"); ctor != nil {
		for _, call := range an.CallsTo(ctor, "sync.NewCond") {
			if args := call.Common().Args; len(args) == 1 {
				if fa, ok := an.Strip(args[0], true).(*ssa.FieldAddr); ok {
					if fr, ok := an.AsField(fa); ok && fr.Struct == gateT {
						mutexField = fr.Field
					}
				}
			}
		}
	}
	isState := func(name string) bool { return name != mutexField && oneOf(name, stateFields...) }

	// the Gate interface: every method must be implemented directly on *gateImpl
	gateIface := c.P.Named("L/core", "Gate")
	if gateIface == nil {
		c.Unresolved("ANCHOR", "L/core.Gate", "interface not found")
		return
	}
	want := map[string]bool{}
	it := gateIface.Underlying().(*types.Interface)
	for i := 0; i < it.NumMethods(); i++ {
		want[it.Method(i).Name()] = true
	}
	have := map[string]*ssa.Function{}
	for _, m := range methods {
		have[m.Name()] = m
	}
	for n := range want {
		if have[n] == nil {
			c.Unresolved("ANCHOR", gateT+"."+n, "Gate method %s is not declared on gateImpl", n)
		}
	}
	for _, n := range []string{"SetCount", "WalkThrough", "AwaitGateCondition", "CancelWithError", "Reset", "Clear", "Register"} {
		if have[n] == nil {
			c.Unresolved("ANCHOR", gateT+"."+n, "expected latch operation %s not found", n)
			return
		}
	}

	// ---- (1) R-LOCK: every method is one critical section -------------------
	c.Clause("1 lock discipline")
	for _, m := range methods {
		held := an.NewHeld(m)
		ops := an.LockOps(m)
		lockPath := m.Params[0].Name() + "." + condField + ".L"
		if mutexField != "" && len(ops) > 0 && ops[0].Path == m.Params[0].Name()+"."+mutexField {
			lockPath = ops[0].Path // the same mutex, addressed through its own field
		}
		okFirst := len(ops) >= 2 && ops[0].Acquire && !ops[0].Deferred && ops[0].Path == lockPath
		nAcquire, foreign := 0, false
		for _, o := range ops {
			if o.Path != lockPath {
				foreign = true
			}
			if o.Acquire {
				nAcquire++
			}
		}
		pos := fpos(m)
		if len(ops) > 0 {
			pos = an.InstrPos(ops[0].In)
		}
		// released on every path to every return: by a deferred unlock that dominates the return, or by hand
		leaks := heldAtReturns(m, lockPath)
		c.Check("R-LOCK", an.FuncName(m)+"/acquire-first-release-on-exit", "the method acquires the latch mutex first, once, and gives it up only on its way out (deferred unlock, or a hand-written unlock on every path to every return)",
			okFirst && nAcquire == 1 && !foreign && len(leaks) == 0, pos, len(ops), "lock operations: %s; returns with the mutex possibly held or a deferred unlock on an unlocked mutex: %v", lockOpsString(ops), leaks)
		// every access to a state field happens with the lock held
		nacc := 0
		bad := ""
		var badPos token.Pos
		an.AllInstrs(m, func(in ssa.Instruction) {
			fa, ok := in.(*ssa.FieldAddr)
			if !ok {
				return
			}
			fr, ok := an.AsField(fa)
			if !ok || fr.Struct != gateT || !isState(fr.Field) {
				return
			}
			nacc++
			if !held.At(in)[lockPath] {
				bad, badPos = fr.Field, an.InstrPos(in)
			}
		})
		if bad != "" {
			pos = badPos
		}
		c.Check("R-LOCK", an.FuncName(m)+"/state-access-under-lock", "every access to latch state (count, arrived, canceled, err, ...) is made while the latch mutex is held",
			bad == "", pos, nacc, "%d state accesses; unguarded: %q", nacc, bad)
		// no re-entrant call to another locking method of the latch
		var reent []string
		an.AllInstrs(m, func(in ssa.Instruction) {
			if call, ok := in.(ssa.CallInstruction); ok {
				cal := an.Callee(call)
				if strings.HasPrefix(cal, gateT+".") || strings.HasPrefix(cal, "L/core.Gate.") {
					reent = append(reent, cal)
				}
			}
		})
		c.Check("R-LOCK", an.FuncName(m)+"/no-reentrant-call", "no latch method calls another latch method (the mutex is not re-entrant)", len(reent) == 0, fpos(m), 1, "calls: %v", reent)
	}
	// the Cond field is written only by the constructor
	w := storesTo(c, gateT, condField)
	okW := true
	for f := range w {
		if an.FuncName(f) != "L/core.NewGate" {
			okW = false
		}
	}
	c.Check("R-WHO", gateT+"."+condField+"/written-only-by-constructor", "the latch's condition variable is installed by NewGate only", okW && len(w) == 1, fpos(have["Clear"]), len(w), "writers: %v", fnNames(w))
	// nobody outside the latch methods touches latch state
	var outsiders []string
	nfields := 0
	for _, f := range repoFuncs(c) {
		if f.Signature.Recv() != nil && an.TypeName(f.Signature.Recv().Type()) == gateT {
			continue
		}
		an.AllInstrs(f, func(in ssa.Instruction) {
			if fa, ok := in.(*ssa.FieldAddr); ok {
				if fr, ok := an.AsField(fa); ok && fr.Struct == gateT {
					nfields++
					if an.FuncName(f) != "L/core.NewGate" {
						outsiders = append(outsiders, an.FuncName(f)+" ("+fr.Field+")")
					}
				}
			}
		})
	}
	c.Check("R-WHO", gateT+"/state-private-to-methods", "latch fields are accessed only by latch methods and NewGate", len(outsiders) == 0, fpos(have["Clear"]), nfields+len(methods), "outside accesses: %v", outsiders)

	checkCancelUnconditional(c)

	// ---- (2) wait in a loop on the full predicate --------------------------
	c.Clause("2 wait loop")
	await := have["AwaitGateCondition"]
	facts := an.NewFacts(await)
	waits := an.CallsTo(await, condWait)
	var allWaits []string
	for _, m := range methods {
		for range an.CallsTo(m, condWait) {
			allWaits = append(allWaits, m.Name())
		}
	}
	c.Check("R-COUNT", an.FuncName(await)+"/single-wait", "the latch has exactly one Cond.Wait, in AwaitGateCondition", len(waits) == 1 && len(allWaits) == 1, fpos(await), len(allWaits), "Wait sites in: %v", allWaits)
	isArr, isCnt, isCanc := loadOf(gateT, "arrived"), loadOf(gateT, "count"), loadOf(gateT, "canceled")
	neqArrCnt := func(f an.Fact) bool {
		r, ok := an.AsRel(f)
		if !ok {
			return false
		}
		for _, rr := range []an.Rel{r, r.Flip()} {
			if isArr(rr.X) && isCnt(rr.Y) && (rr.Op == token.NEQ || rr.Op == token.LSS) {
				return true
			}
		}
		return false
	}
	notCanceled := func(f an.Fact) bool { return !f.Val && isCanc(f.Cond) }
	for _, wcall := range waits {
		b := wcall.Block()
		c.Check("R-GUARD", an.FuncName(await)+"/wait-in-loop", "Cond.Wait is inside a loop (the predicate is re-tested after every wake-up)", an.InLoop(wcall), an.InstrPos(wcall), 1, "in CFG cycle: %v", an.InLoop(wcall))
		c.Check("R-GUARD", an.FuncName(await)+"/wait-guarded-by-arrived-ne-count", "Cond.Wait is reached only while arrived != count", facts.Holds(b, neqArrCnt), an.InstrPos(wcall), len(facts.At(b)), "facts at wait: %s", factsString(facts.At(b)))
		c.Check("R-GUARD", an.FuncName(await)+"/wait-guarded-by-not-canceled", "Cond.Wait is reached only while !canceled", facts.Holds(b, notCanceled), an.InstrPos(wcall), len(facts.At(b)), "facts at wait: %s", factsString(facts.At(b)))
		// the predicate tested before going (back) to sleep is read from the latch after the wake-up: the loads of
		// arrived, count and canceled behind the guarding facts are themselves inside the wait loop (a value read once
		// before the loop is stale after SetCount/Clear/WalkThrough ran while this waiter was parked)
		fresh := func(v ssa.Value) bool {
			in, ok := an.Strip(v, true).(ssa.Instruction)
			return ok && an.InLoop(in)
		}
		freshNeq := func(f an.Fact) bool {
			r, ok := an.AsRel(f)
			return ok && neqArrCnt(f) && fresh(r.X) && fresh(r.Y)
		}
		freshCanc := func(f an.Fact) bool { return notCanceled(f) && fresh(f.Cond) }
		c.Check("R-GUARD", an.FuncName(await)+"/wait-predicate-reread-after-wakeup", "the arrived/count/canceled values tested before each Cond.Wait are loaded inside the wait loop (re-read after every wake-up, not cached before it)",
			facts.Holds(b, freshNeq) && facts.Holds(b, freshCanc), an.InstrPos(wcall), len(facts.At(b)), "fresh arrived!=count: %v, fresh !canceled: %v", facts.Holds(b, freshNeq), facts.Holds(b, freshCanc))
	}
	// the loop test dominates every return
	var loopIf ssa.Instruction
	an.AllInstrs(await, func(in ssa.Instruction) {
		if i, ok := in.(*ssa.If); ok && loopIf == nil {
			cnd, _ := normC(i.Cond)
			if bo, ok := cnd.(*ssa.BinOp); ok && ((isArr(bo.X) && isCnt(bo.Y)) || (isArr(bo.Y) && isCnt(bo.X))) {
				loopIf = in
			}
		}
	})
	ord := an.NewOrder(await, func(in ssa.Instruction) uint64 {
		if in == loopIf {
			return 1
		}
		return 0
	})
	for i, e := range an.Exits(await) {
		must, _ := ord.Before(e.Ret)
		key := sprintf("%s/exit%d", an.FuncName(await), i)
		if exitIsNil(e, 0) {
			c.Check("R-GUARD", key+"/success-only-when-not-canceled", "success (nil) is returned only on the !canceled edge", facts.Holds(e.Ret.Block(), notCanceled) && loopIf != nil && must&1 != 0,
				an.InstrPos(e.Ret), 1, "facts: %s; predicate test precedes: %v", factsString(facts.At(e.Ret.Block())), must&1 != 0)
		} else {
			isCancErr := an.IsGlobalLoad(e.Vals[0], "L/core.ErrGateCanceled") || loadOf(gateT, "err")(e.Vals[0])
			c.Check("R-GUARD", key+"/error-only-when-canceled", "a non-nil result is the cancellation error (stored err, else ErrGateCanceled) and is returned only on the canceled edge",
				isCancErr && facts.Holds(e.Ret.Block(), func(f an.Fact) bool { return f.Val && isCanc(f.Cond) }) && must&1 != 0, an.InstrPos(e.Ret), 1, "returns %s; facts: %s", an.Path(e.Vals[0]), factsString(facts.At(e.Ret.Block())))
		}
	}
	nst := 0
	for _, f := range stateFields {
		nst += len(an.Stores(await, gateT, f))
	}
	c.Check("R-NOEFFECT", an.FuncName(await)+"/pure-wait", "AwaitGateCondition does not modify the latch", nst == 0, fpos(await), 1, "%d stores to latch state", nst)

	// ---- (3) signal on change -----------------------------------------------
	c.Clause("3 signal on change")
	predFields := []string{"count", "arrived", "canceled"}
	for _, m := range methods {
		mf := an.NewFacts(m)
		for _, pf := range predFields {
			for si, st := range an.Stores(m, gateT, pf) {
				key := sprintf("%s/store-%s-%d", an.FuncName(m), pf, si)
				kind, reason := classifyGateStore(st, pf)
				if kind == "away" && pf != "canceled" {
					// the "cannot satisfy" arguments for arrived/count rest on the invariant arrived <= count, which
					// holds on entry (under the lock) but not after this very method has stored the OTHER field
					other := "count"
					if pf == "count" {
						other = "arrived"
					}
					isOther := map[ssa.Instruction]bool{}
					for _, o := range an.Stores(m, gateT, other) {
						isOther[o] = true
					}
					ordO := an.NewOrder(m, func(in ssa.Instruction) uint64 {
						if isOther[in] {
							return 1
						}
						return 0
					})
					if _, may := ordO.Before(st); may&1 != 0 {
						kind, reason = "may-satisfy", "the method has already stored "+other+", so arrived <= count may not hold here and this store can make arrived == count true"
					}
				}
				switch kind {
				case "away":
					c.Check("R-SIGNAL", key, "a store to a wait-predicate field that cannot make 'arrived == count || canceled' become true needs no wake-up: "+reason, true, an.InstrPos(st), 1, "%s", reason)
				case "may-satisfy":
					ok, detail := broadcastFollows(m, mf, st, isArr, isCnt)
					c.Check("R-SIGNAL", key, "a store that can make 'arrived == count || canceled' become true is followed by Broadcast on every path on which the predicate may hold ("+reason+")", ok, an.InstrPos(st), 1, "%s", detail)
				default:
					c.Check("R-SIGNAL", key, "stores to wait-predicate fields must have a recognised shape", false, an.InstrPos(st), 1, "unrecognised store shape: %s", reason)
				}
			}
		}
		// Signal would wake only one of several waiters
		if n := len(an.CallsTo(m, condSig)); n > 0 {
			c.Check("R-SIGNAL", an.FuncName(m)+"/no-signal", "the latch wakes all waiters (Broadcast), never a single one (Signal)", false, fpos(m), n, "%d Signal calls", n)
		}
	}

	// ---- (4) refusal without change ------------------------------------------
	c.Clause("4 refusal without change")
	for _, name := range []string{"WalkThrough", "SetCount"} {
		m := have[name]
		isStore := func(in ssa.Instruction) uint64 {
			if s, ok := in.(*ssa.Store); ok {
				if fr, ok := an.AsField(s.Addr); ok && fr.Struct == gateT {
					return 1
				}
			}
			if an.IsCallTo(in, condBcast, condSig) {
				return 2
			}
			return 0
		}
		o := an.NewOrder(m, isStore)
		nref := 0
		for i, e := range an.Exits(m) {
			if exitIsNil(e, 0) {
				continue
			}
			nref++
			_, may := o.Before(e.Ret)
			c.Check("R-NOEFFECT", sprintf("%s/refusal%d", an.FuncName(m), i), "a refused operation returns ErrGateIntegrity having changed nothing and woken nobody",
				may == 0 && an.IsGlobalLoad(e.Vals[0], "L/core.ErrGateIntegrity"), an.InstrPos(e.Ret), 1, "returns %s; effects possibly before: stores=%v broadcast=%v", an.Path(e.Vals[0]), may&1 != 0, may&2 != 0)
		}
		c.Check("R-COUNT", an.FuncName(m)+"/has-refusal", "the operation has a refusing exit", nref >= 1, fpos(m), nref, "%d refusing exits", nref)
	}
	// WalkThrough refuses exactly when arrived == count; SetCount when count < arrived
	{
		m := have["WalkThrough"]
		mf := an.NewFacts(m)
		for _, st := range an.Stores(m, gateT, "arrived") {
			ok := mf.Holds(st.Block(), func(f an.Fact) bool {
				r, k := an.AsRel(f)
				if !k {
					return false
				}
				for _, rr := range []an.Rel{r, r.Flip()} {
					if isArr(rr.X) && isCnt(rr.Y) && (rr.Op == token.NEQ || rr.Op == token.LSS) {
						return true
					}
				}
				return false
			})
			c.Check("R-GUARD", an.FuncName(m)+"/arrival-only-below-count", "an arrival is counted only while arrived != count (arrivals beyond the expected count are refused)", ok, an.InstrPos(st), 1, "facts: %s", factsString(mf.At(st.Block())))
		}
		m = have["SetCount"]
		mf = an.NewFacts(m)
		for _, st := range an.Stores(m, gateT, "count") {
			ok := mf.Holds(st.Block(), func(f an.Fact) bool {
				r, k := an.AsRel(f)
				if !k {
					return false
				}
				for _, rr := range []an.Rel{r, r.Flip()} {
					// count_param >= arrived
					if _, isP := rr.X.(*ssa.Parameter); isP && isArr(rr.Y) && rr.Op == token.GEQ {
						return true
					}
				}
				return false
			})
			_, isParam := st.Val.(*ssa.Parameter)
			c.Check("R-GUARD", an.FuncName(m)+"/count-not-below-arrivals", "the expected count is replaced by the argument only when it is not below the arrivals already made", ok && isParam, an.InstrPos(st), 1, "stored value is the parameter: %v; facts: %s", isParam, factsString(mf.At(st.Block())))
		}
	}

	// ---- (5) cancellation stickiness ------------------------------------------
	c.Clause("5 cancellation stickiness")
	for _, m := range methods {
		mf := an.NewFacts(m)
		for si, st := range an.Stores(m, gateT, "canceled") {
			v, isC := an.ConstBool(st.Val)
			if !isC {
				c.Check("R-WHO", sprintf("%s/canceled-store%d", an.FuncName(m), si), "canceled is only ever assigned constants", false, an.InstrPos(st), 1, "non-constant store")
				continue
			}
			if v {
				c.Check("R-WHO", sprintf("%s/canceled-store%d", an.FuncName(m), si), "canceled is set only by CancelWithError", m.Name() == "CancelWithError", an.InstrPos(st), 1, "canceled = true in %s", m.Name())
			} else {
				c.Check("R-WHO", sprintf("%s/canceled-store%d", an.FuncName(m), si), "a cancelled latch is un-cancelled only by Clear (re-arming keeps it cancelled)", m.Name() == "Clear", an.InstrPos(st), 1, "canceled = false in %s", m.Name())
			}
		}
		if m.Name() == "Reset" {
			sts := an.Stores(m, gateT, "arrived")
			for si, st := range sts {
				c.Check("R-GUARD", sprintf("%s/rearm-only-if-not-canceled%d", an.FuncName(m), si), "re-arming resets the arrivals only when the latch is not cancelled", mf.Holds(st.Block(), notCanceled), an.InstrPos(st), 1, "facts: %s", factsString(mf.At(st.Block())))
			}
			c.Check("R-COUNT", an.FuncName(m)+"/rearm-resets-arrivals", "re-arming resets the arrivals", len(sts) >= 1, fpos(m), len(sts), "%d stores to arrived", len(sts))
			for _, f := range []string{"err", "count"} {
				n := len(an.Stores(m, gateT, f))
				c.Check("R-NOEFFECT", an.FuncName(m)+"/rearm-keeps-"+f, "re-arming does not touch "+f, n == 0, fpos(m), 1, "%d stores", n)
			}
		}
		if m.Name() == "Clear" {
			// Clear brings the latch back to its initial state on every path: each state field is stored
			// unconditionally (arrived = 0, canceled = false, err = nil, count = the constructor's count)
			for _, f := range []string{"arrived", "canceled", "err", "count"} {
				sts := an.Stores(m, gateT, f)
				isSt := map[ssa.Instruction]bool{}
				for _, st := range sts {
					isSt[st] = true
				}
				ord := an.NewOrder(m, func(in ssa.Instruction) uint64 {
					if isSt[in] {
						return 1
					}
					return 0
				})
				okU := len(sts) >= 1
				for _, e := range an.Exits(m) {
					if must, _ := ord.Before(e.Ret); must&1 == 0 {
						okU = false
					}
				}
				c.Check("R-RESET", an.FuncName(m)+"/unconditional-"+f, "Clear re-initialises "+f+" on every path (whatever state the latch was in, cancelled or not)", okU, fpos(m), len(sts), "%d stores; on every path to every exit: %v", len(sts), okU)
			}
		}
		if m.Name() == "CancelWithError" {
			es := an.Stores(m, gateT, "err")
			okE := len(es) == 1
			if okE {
				_, okE = es[0].Val.(*ssa.Parameter)
			}
			c.Check("R-WIRE", an.FuncName(m)+"/stores-error", "cancellation records the caller's error", okE, fpos(m), len(es), "%d stores to err", len(es))
		}
	}

}

func normC(v ssa.Value) (ssa.Value, bool) {
	val := true
	for {
		u, ok := v.(*ssa.UnOp)
		if ok && u.Op == token.NOT {
			v, val = u.X, !val
			continue
		}
		return v, val
	}
}

func lockOpsString(ops []struct {
	In       ssa.Instruction
	Path     string
	Acquire  bool
	Deferred bool
}) string {
	var s []string
	for _, o := range ops {
		k := "unlock"
		if o.Acquire {
			k = "lock"
		}
		if o.Deferred {
			k = "defer " + k
		}
		s = append(s, k+"("+o.Path+")")
	}
	return strings.Join(s, "; ")
}

func factsString(fs []an.Fact) string {
	var s []string
	for _, f := range fs {
		s = append(s, condString(f.Cond)+"="+sprintf("%v", f.Val))
	}
	sort.Strings(s)
	return "[" + strings.Join(s, ", ") + "]"
}

func condString(v ssa.Value) string {
	switch x := v.(type) {
	case *ssa.BinOp:
		return "(" + operandString(x.X) + " " + x.Op.String() + " " + operandString(x.Y) + ")"
	}
	return operandString(v)
}

func operandString(v ssa.Value) string {
	if c, ok := v.(*ssa.Const); ok {
		return c.String()
	}
	return an.Path(v)
}

// classifyGateStore decides whether a store to a wait-predicate field can turn
// P = (arrived == count || canceled) from false to true.
func classifyGateStore(st *ssa.Store, field string) (kind, reason string) {
	switch field {
	case "canceled":
		if v, ok := an.ConstBool(st.Val); ok {
			if v {
				return "may-satisfy", "canceled = true satisfies the predicate"
			}
			return "away", "canceled = false can only falsify the predicate"
		}
		return "unknown", "non-constant store to canceled"
	case "arrived":
		if n, ok := an.ConstInt(st.Val); ok && n == 0 {
			return "away", "arrived = 0: with arrived <= count this satisfies arrived == count only if count == 0, in which case arrived was already 0"
		}
		if b, ok := st.Val.(*ssa.BinOp); ok && b.Op == token.ADD && loadOf(gateT, "arrived")(b.X) {
			return "may-satisfy", "arrived + n may reach count"
		}
		return "unknown", "arrived assigned " + an.Path(st.Val)
	case "count":
		if b, ok := st.Val.(*ssa.BinOp); ok && b.Op == token.ADD && loadOf(gateT, "count")(b.X) {
			if _, isParam := b.Y.(*ssa.Parameter); isParam {
				return "away", "count += n: with arrived <= count the predicate can hold afterwards only if n == 0 and it held before"
			}
		}
		return "may-satisfy", "a new count may equal the arrivals already made"
	}
	return "unknown", field
}

// broadcastFollows checks that after store st every normal exit is either
// preceded by a Broadcast that itself follows the store, or lies on the
// known-false edge of a comparison arrived == count evaluated after the store.
func broadcastFollows(m *ssa.Function, mf *an.Facts, st *ssa.Store, isArr, isCnt func(ssa.Value) bool) (bool, string) {
	bcasts := an.CallsTo(m, condBcast)
	ord := an.NewOrder(m, func(in ssa.Instruction) uint64 {
		var r uint64
		if in == ssa.Instruction(st) {
			r |= 1
		}
		if an.IsCallTo(in, condBcast) {
			r |= 2
		}
		return r
	})
	// broadcasts counted only when they come after the store
	for _, bc := range bcasts {
		if must, _ := ord.Before(bc); must&1 == 0 {
			// this broadcast may run before the store; do not rely on it: handled below by requiring store-before for every broadcast on the exit's paths
			_ = bc
		}
	}
	for _, e := range an.Exits(m) {
		must, may := ord.Before(e.Ret)
		if may&1 == 0 {
			continue // store not on any path to this exit
		}
		if must&2 != 0 {
			// a broadcast certainly happened; make sure one of them certainly follows the store
			okAfter := false
			for _, bc := range bcasts {
				bm, _ := ord.Before(bc)
				if bm&1 != 0 && an.InstrDominates(bc, e.Ret) {
					okAfter = true
				}
			}
			if okAfter {
				continue
			}
		}
		// otherwise: the exit must be on the false edge of (arrived == count) evaluated after the store
		okFact := mf.Holds(e.Ret.Block(), func(f an.Fact) bool {
			r, k := an.AsRel(f)
			if !k || r.Op != token.NEQ {
				return false
			}
			if !((isArr(r.X) && isCnt(r.Y)) || (isArr(r.Y) && isCnt(r.X))) {
				return false
			}
			bo, _ := f.Cond.(*ssa.BinOp)
			bm, _ := ord.Before(bo)
			return bm&1 != 0
		})
		// the exit block may itself be the join of the broadcast branch and the not-equal edge
		if !okFact {
			okFact = joinOfBroadcastAndNotEqual(e.Ret.Block(), bcasts, ord, isArr, isCnt)
		}
		if !okFact {
			return false, sprintf("exit at line %d is reachable after the store without Broadcast and without a failed 'arrived == count' test", m.Prog.Fset.Position(an.InstrPos(e.Ret)).Line)
		}
	}
	return true, sprintf("%d Broadcast sites; every exit after the store is covered", len(bcasts))
}

// joinOfBroadcastAndNotEqual recognises
//
//	if arrived == count { Broadcast() }   // tested after the store
//	<exit block>
//
// where the exit block is the join of the then-branch and the false edge.
func joinOfBroadcastAndNotEqual(b *ssa.BasicBlock, bcasts []ssa.CallInstruction, ord *an.Order, isArr, isCnt func(ssa.Value) bool) bool {
	// walk back through single-predecessor chains to the join block
	seen := map[*ssa.BasicBlock]bool{}
	for len(b.Preds) == 1 && !seen[b] {
		seen[b] = true
		b = b.Preds[0]
	}
	if len(b.Preds) != 2 {
		return false
	}
	for i := 0; i < 2; i++ {
		thenB, ifB := b.Preds[i], b.Preds[1-i]
		ifi, ok := ifB.Instrs[len(ifB.Instrs)-1].(*ssa.If)
		if !ok || len(thenB.Preds) != 1 || thenB.Preds[0] != ifB || ifB.Succs[0] != thenB || ifB.Succs[1] != b {
			continue
		}
		bo, ok := ifi.Cond.(*ssa.BinOp)
		if !ok || bo.Op != token.EQL || !((isArr(bo.X) && isCnt(bo.Y)) || (isArr(bo.Y) && isCnt(bo.X))) {
			continue
		}
		if bm, _ := ord.Before(bo); bm&1 == 0 {
			continue
		}
		for _, bc := range bcasts {
			if bc.Block() == thenB {
				return true
			}
		}
	}
	return false
}

// gateElemFields: a call on an element of a local array/slice that was filled with gate fields of struct T
// (for _, g := range [...]Gate{s.a, s.b} { g.M() }, or a variadic helper's loop over its arguments) reaches every
// field stored in it, provided the loop is entered on every path. It returns those fields and the loop header.
func gateElemFields(call ssa.CallInstruction, T string) (fields []string, header *ssa.BasicBlock) {
	cc := call.Common()
	if !cc.IsInvoke() {
		return nil, nil
	}
	var base ssa.Value
	switch x := cc.Value.(type) {
	case *ssa.UnOp: // element of an array variable or slice: *(&arr[i])
		ia, ok := x.X.(*ssa.IndexAddr)
		if x.Op != token.MUL || !ok {
			return nil, nil
		}
		if _, constIdx := ia.Index.(*ssa.Const); constIdx {
			return nil, nil
		}
		base = ia.X
	case *ssa.Index: // element of an array value (range over an array copies it): (*arr)[i]
		if _, constIdx := x.Index.(*ssa.Const); constIdx {
			return nil, nil
		}
		ld, ok := x.X.(*ssa.UnOp)
		if !ok || ld.Op != token.MUL {
			return nil, nil
		}
		base = ld.X
	default:
		return nil, nil
	}
	if sl, isSlice := base.(*ssa.Slice); isSlice {
		if sl.Low != nil || sl.High != nil || sl.Max != nil {
			return nil, nil // a part of the collection only
		}
		base = sl.X
	}
	arr, ok := base.(*ssa.Alloc)
	if !ok {
		return nil, nil
	}
	for _, r := range *arr.Referrers() {
		ea, ok := r.(*ssa.IndexAddr)
		if !ok {
			continue
		}
		if _, constIdx := ea.Index.(*ssa.Const); !constIdx {
			continue
		}
		for _, r2 := range *ea.Referrers() {
			if st, ok := r2.(*ssa.Store); ok && st.Addr == ssa.Value(ea) {
				if fr, ok := an.AsField(st.Val); ok && fr.Struct == T {
					fields = append(fields, fr.Field)
				} else {
					return nil, nil // something else than a gate field is in the collection
				}
			}
		}
	}
	// the loop header: the nearest dominator of the call's block that is a target of a back edge
	for b := call.Block(); b != nil; b = b.Idom() {
		for _, p := range b.Preds {
			if b.Dominates(p) {
				return fields, b
			}
		}
	}
	return nil, nil
}

// checkFlow checks fan-out completeness and arrival/await pairing of a flow struct.
func checkFlow(c *report.Ctx, typ string, fanout []string, gateMethod map[string]string, pairs [][]string) {
	fields := structFields(c, "L/core", typ)
	if fields == nil {
		return
	}
	T := "L/core." + typ
	var gates []string
	for _, f := range fields {
		if an.TypeName(f.Type()) == "L/core.Gate" {
			gates = append(gates, f.Name())
		}
	}
	c.Analysed("gate fields", len(gates))
	c.Check("R-COUNT", T+"/has-gates", "the flow object is built from barrier fields", len(gates) >= 3, token.NoPos, len(gates), "Gate-typed fields: %v", gates)
	// which gate field does a call's receiver load?
	recvField := func(call ssa.CallInstruction) string {
		cc := call.Common()
		if !cc.IsInvoke() {
			return ""
		}
		if fr, ok := an.AsField(cc.Value); ok && fr.Struct == T {
			return fr.Field
		}
		return ""
	}
	elemFields := func(call ssa.CallInstruction) ([]string, *ssa.BasicBlock) { return gateElemFields(call, T) }
	for _, mname := range fanout {
		m := fn(c, "L/core", "(*"+typ+")."+mname)
		if m == nil {
			continue
		}
		gm := "L/core.Gate." + gateMethod[mname]
		calls := an.CallsTo(m, gm)
		exits := an.Exits(m)
		for _, g := range gates {
			var site ssa.CallInstruction
			var loopHeader *ssa.BasicBlock
			for _, call := range calls {
				if recvField(call) == g {
					site = call
				}
				if fs, hd := elemFields(call); hd != nil && oneOf(g, fs...) {
					site, loopHeader = call, hd
				}
			}
			ok := site != nil
			detail := "no call"
			pos := fpos(m)
			if ok {
				pos = an.InstrPos(site)
				// on every path to every exit
				for _, e := range exits {
					dom := an.InstrDominates(site, e.Ret)
					if loopHeader != nil {
						dom = loopHeader.Dominates(e.Ret.Block()) && site.Block().Dominates(site.Block()) && an.InLoop(site)
						// the call must run in every iteration: its block dominates the loop's back edge
						for _, p := range loopHeader.Preds {
							if loopHeader.Dominates(p) && !site.Block().Dominates(p) {
								dom = false
							}
						}
					}
					if !dom {
						ok = false
						detail = "call does not dominate every return"
					}
				}
				if _, isGo := site.(*ssa.Go); isGo {
					ok = false
					detail = "asynchronous"
				}
				if _, isDefer := site.(*ssa.Defer); isDefer && ok {
					detail = "deferred"
				}
				if ok && mname == "CancelWithError" {
					args := site.Common().Args
					if len(args) != 1 {
						ok = false
					} else if _, isP := args[0].(*ssa.Parameter); !isP {
						ok, detail = false, "the error passed on is not the caller's"
					}
				}
				if ok && detail == "no call" {
					detail = "called on every path"
				}
			}
			c.Check("R-FANOUT", sprintf("%s.%s/%s", T, mname, g), sprintf("%s reaches gate %s (calls %s on it on every path)", mname, g, gateMethod[mname]), ok, pos, 1, "%s", detail)
		}
	}
	// pairing
	used := map[string]string{}
	for _, p := range pairs {
		var flds []string
		okAll := true
		var pos token.Pos
		for i, mname := range p {
			if mname == "" {
				continue
			}
			m := fn(c, "L/core", "(*"+typ+")."+mname)
			if m == nil {
				okAll = false
				continue
			}
			pos = fpos(m)
			wantGM := []string{"WalkThrough", "AwaitGateCondition", "SetCount"}[i]
			calls := an.CallsTo(m, "L/core.Gate."+wantGM)
			// exactly one gate call, its result returned
			var all []ssa.CallInstruction
			an.AllInstrs(m, func(in ssa.Instruction) {
				if call, ok := in.(ssa.CallInstruction); ok && strings.HasPrefix(an.Callee(call), "L/core.Gate.") {
					all = append(all, call)
				}
			})
			if len(calls) != 1 || len(all) != 1 {
				okAll = false
				flds = append(flds, mname+":?")
				continue
			}
			ex := an.Exits(m)
			retOK := len(ex) == 1 && len(ex[0].Vals) == 1 && ex[0].Vals[0] == calls[0].Value()
			if !retOK {
				okAll = false
			}
			flds = append(flds, recvField(calls[0]))
		}
		same := okAll
		for _, f := range flds {
			if f == "" || f != flds[0] {
				same = false
			}
		}
		if same {
			if other, dup := used[flds[0]]; dup {
				same = false
				flds = append(flds, "shared with "+other)
			}
			used[flds[0]] = p[0]
		}
		c.Check("R-PAIR", sprintf("%s/%s~%s", T, p[0], p[1]), sprintf("arrival %s, await %s%s operate on one and the same gate (exactly one gate call each, result returned), distinct from the other pairs' gates", p[0], p[1], optName(p[2])), same, pos, len(flds), "gate fields used: %v", flds)
	}
}

func optName(s string) string {
	if s == "" {
		return ""
	}
	return " and count setter " + s
}

// checkGateCounts verifies the constructors' initial counts.
func checkGateCounts(c *report.Ctx) {
	type want struct {
		ctor, typ string
		counts    map[string]int64 // by the method that awaits the gate
	}
	maxAgents := int64(65535)
	for _, w := range []want{
		{"NewInitFlowSynchronization", "initFlowSynchronizationImpl", map[string]int64{"AwaitRuntimeReady": 1, "AwaitRuntimeRestoreReady": 1, "AwaitExternalAgentsRegistered": 0, "AwaitAgentsReady": maxAgents}},
		{"NewInvokeFlowSynchronization", "invokeFlowSynchronizationImpl", map[string]int64{"AwaitRuntimeReady": 1, "AwaitRuntimeResponse": 1, "AwaitAgentsReady": maxAgents}},
	} {
		ctor := fn(c, "L/core", w.ctor)
		if ctor == nil {
			continue
		}
		T := "L/core." + w.typ
		// field -> constant passed to NewGate
		got := map[string]int64{}
		for _, st := range an.Stores(ctor, T, "") {
			fr, _ := an.AsField(st.Addr)
			call, _ := an.CallOf(an.Strip(st.Val, false))
			if call == nil || an.Callee(call) != "L/core.NewGate" || len(call.Call.Args) != 1 {
				got[fr.Field] = -1
				continue
			}
			if n, ok := an.ConstInt(call.Call.Args[0]); ok {
				got[fr.Field] = n
			} else {
				got[fr.Field] = -1
			}
		}
		for await, n := range w.counts {
			m := c.P.Func("L/core", "(*"+w.typ+")."+await)
			if m == nil {
				continue
			}
			field := ""
			for _, call := range an.CallsTo(m, "L/core.Gate.AwaitGateCondition") {
				if fr, ok := an.AsField(call.Common().Value); ok {
					field = fr.Field
				}
			}
			g, has := got[field]
			c.Check("R-CONST", sprintf("%s/initial-count-of-gate-awaited-by-%s", T, await), sprintf("the gate awaited by %s is created expecting %d arrival(s)", await, n), has && g == n, fpos(ctor), 1, "field %q created with NewGate(%d)", field, g)
		}
	}
	// maxAgentsLimit constant
	if k := c.P.Const("L/core", "maxAgentsLimit"); k != nil {
		n, _ := an.ConstInt(k.Value)
		c.Check("R-CONST", "L/core.maxAgentsLimit", "the 'not yet known' agent count is the uint16 maximum (never reachable by real arrivals)", n == maxAgents, k.Pos(), 1, "maxAgentsLimit = %d", n)
	} else {
		c.Unresolved("ANCHOR", "L/core.maxAgentsLimit", "constant not found")
	}
	// NewGate stores its argument into count and the initial count
	ng := fn(c, "L/core", "NewGate")
	if ng != nil {
		okCount := false
		for _, st := range an.Stores(ng, gateT, "count") {
			if _, ok := st.Val.(*ssa.Parameter); ok {
				okCount = true
			}
		}
		c.Check("R-WIRE", "L/core.NewGate/count", "NewGate installs its argument as the expected count", okCount, fpos(ng), 1, "count <- parameter: %v", okCount)
	}
}

// checkDeadlineAwait checks AwaitRuntimeReadyWithDeadline: awaits the same gate
// as AwaitRuntimeReady and, on expiry, cancels the whole init flow with
// ErrRestoreHookTimeout and returns that error.
func checkDeadlineAwait(c *report.Ctx) {
	m := fn(c, "L/core", "(*initFlowSynchronizationImpl).AwaitRuntimeReadyWithDeadline")
	plain := fn(c, "L/core", "(*initFlowSynchronizationImpl).AwaitRuntimeReady")
	if m == nil || plain == nil {
		return
	}
	T := "L/core.initFlowSynchronizationImpl"
	fieldOf := func(f *ssa.Function) string {
		for _, g := range an.WithAnon(f) {
			for _, call := range an.CallsTo(g, "L/core.Gate.AwaitGateCondition") {
				if fr, ok := an.AsField(call.Common().Value); ok && fr.Struct == T {
					return fr.Field
				}
				// the gate may reach the waiter as a captured variable or an argument cell
				if fr, ok := an.AsField(chanRoot(call.Common().Value)); ok && fr.Struct == T {
					return fr.Field
				}
			}
		}
		return ""
	}
	a, b := fieldOf(m), fieldOf(plain)
	c.Check("R-PAIR", T+"/AwaitRuntimeReadyWithDeadline~AwaitRuntimeReady", "the deadline variant awaits the same gate as AwaitRuntimeReady", a != "" && a == b, fpos(m), 2, "gates: %q vs %q", a, b)
	cancels := an.CallsTo(m, T+".CancelWithError")
	ok := len(cancels) == 1
	detail := sprintf("%d CancelWithError calls", len(cancels))
	if ok {
		arg := cancels[0].Common().Args[len(cancels[0].Common().Args)-1]
		isTimeout := an.GlobalOf(arg) == "L/interop.ErrRestoreHookTimeout"
		// the call is in the select branch receiving from ctx.Done()
		ok = isTimeout
		detail = "cancels with " + an.Path(arg)
	}
	pos := fpos(m)
	if len(cancels) > 0 {
		pos = an.InstrPos(cancels[0])
	}
	c.Check("R-ORDER", T+".AwaitRuntimeReadyWithDeadline/timeout-cancels-flow", "on expiry of the deadline the init flow is cancelled with ErrRestoreHookTimeout (so the parked waiter goroutine and later awaits are released)", ok, pos, 1, "%s", detail)
	// select has a ctx.Done() case
	nsel := 0
	hasDone := false
	an.AllInstrs(m, func(in ssa.Instruction) {
		if s, ok := in.(*ssa.Select); ok {
			nsel++
			for _, st := range s.States {
				if call, _ := an.CallOf(st.Chan); call != nil && an.Callee(call) == "context.Context.Done" {
					hasDone = true
				}
			}
		}
	})
	c.Check("R-GUARD", T+".AwaitRuntimeReadyWithDeadline/select-on-deadline", "the wait selects between the gate and the deadline context", nsel == 1 && hasDone, fpos(m), nsel, "selects: %d, ctx.Done case: %v", nsel, hasDone)
	// what is returned: the waiter's result, or ErrRestoreHookTimeout on expiry - never nil by default
	gotTimeout, gotWaiter, other := false, false, []string{}
	for _, e := range an.Exits(m) {
		if len(e.Vals) != 1 {
			continue
		}
		for _, leaf := range an.PhiLeaves(e.Vals[0]) {
			switch {
			case an.GlobalOf(leaf) == "L/interop.ErrRestoreHookTimeout":
				gotTimeout = true
			case isSelectRecv(leaf):
				gotWaiter = true
			default:
				other = append(other, an.Path(leaf))
			}
		}
	}
	c.Check("R-WIRE", T+".AwaitRuntimeReadyWithDeadline/returns-timeout-or-waiter-result", "the call returns the gate waiter's result or, on expiry, ErrRestoreHookTimeout - nothing else (in particular not nil after a timeout)", gotTimeout && gotWaiter && len(other) == 0, fpos(m), 3, "returns the timeout error: %v; the waiter's result: %v; other values: %v", gotTimeout, gotWaiter, other)
}

func isSelectRecv(v ssa.Value) bool {
	ex, ok := v.(*ssa.Extract)
	if !ok {
		return false
	}
	_, isSel := ex.Tuple.(*ssa.Select)
	return isSel && ex.Index >= 2
}
