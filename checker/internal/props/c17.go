package props

import (
	"go/token"
	"sort"
	"strings"

	"golang.org/x/tools/go/ssa"

	"verif/checker/internal/an"
	"verif/checker/internal/report"
)

const diP = "L/core/directinvoke"
const bwP = "L/core/bandwidthlimiter"

func init() {
	register(&Prop{
		Spec: report.Spec{
			ID: "C17",
			Explanation: "Structural clauses of the direct-invoke path. History independence (R-DEFASSIGN): in ReceiveDirectInvoke every package-level per-request setting is stored with its default before it is read or conditionally overridden in the same activation, on every path (the payload limit and the response mode unconditionally, rate and burst on every path through the streaming block, which is the only region whose consumers read them). Token validation: the success return is dominated by the passing edges of the four comparisons (id, reservation token, version, invack deadline), every failing edge renders 400 with the matching error and returns it, and the rate/burst range checks use the documented constants with <= on both sides. " +
				"Classification: a restricted copy reads through LimitReader(payload, limit+1), 'oversized' is exactly copied > limit, the End-Of-Response trailer is set exactly once per path with Truncated exactly on a copy error, one result is sent on copyDone and then cancel is called; on a reset the writer is cancelled and the connection closed before the copy result is awaited, the metrics are attached and the reset is acknowledged. Token bucket (necessary for the rate bound): a write happens only after consumeTokens(len(p)) succeeded, tokens are subtracted only when sufficient, under the bucket mutex, refill is min(count+refill, capacity), writes larger than the capacity are chunked to it, the bucket starts with capacity = initial = burst and refill = rate*125/1000 every 125 ms, and the only unbounded wait is fed by the ticker goroutine that stops only in stop(), called after the copy returned. " +
				"Added after the blind rounds: refills happen only on a tick; the Trailer header is only added to after its declaration; every response carries the cancellable request. " +
				"NOT decided: bytes forwarded in order and unaltered; the numeric bound burst + rate x t (ticker timing); all chunkings.",
			RuleText:    "one obligation per per-request setting, per validation comparison, per trailer store, per ordering step of the reset path, per token-bucket guard/constant",
			Assumptions: trusted,
			MinObs:      26,
		},
		Run: runC17,
	})
}

func runC17(c *report.Ctx) {
	c.Clause("1 history independence")
	checkDirectInvokeDefaults(c)
	c.Clause("2 token validation")
	checkTokenValidation(c)
	c.Clause("3 classification and reset")
	checkTrailerDeclarations(c)
	checkResponseAlwaysCancellable(c)
	checkCancelClosesConnection(c)
	checkPayloadCopy(c)
	c.Clause("4 token bucket")
	checkTokenBucket(c)
}

func globalName(v ssa.Value) string {
	if g, ok := v.(*ssa.Global); ok {
		return an.Path(g)
	}
	return ""
}

func checkDirectInvokeDefaults(c *report.Ctx) {
	f := fn(c, diP, "ReceiveDirectInvoke")
	if f == nil {
		return
	}
	name := an.FuncName(f)
	facts := an.NewFacts(f)
	settings := map[string]string{
		diP + ".MaxDirectResponseSize":      "L/interop.MaxPayloadSize",
		diP + ".InvokeResponseMode":         "Buffered",
		diP + ".ResponseBandwidthRate":      "L/interop.ResponseBandwidthRate",
		diP + ".ResponseBandwidthBurstSize": "L/interop.ResponseBandwidthBurstSize",
	}
	// classify stores: default (constant) vs override
	type sinfo struct {
		defaults []*ssa.Store
		others   []*ssa.Store
		loads    []ssa.Instruction
	}
	info := map[string]*sinfo{}
	for g := range settings {
		info[g] = &sinfo{}
	}
	an.AllInstrs(f, func(in ssa.Instruction) {
		switch x := in.(type) {
		case *ssa.Store:
			if si, ok := info[globalName(x.Addr)]; ok {
				if _, isC := an.Strip(x.Val, true).(*ssa.Const); isC {
					si.defaults = append(si.defaults, x)
				} else {
					si.others = append(si.others, x)
				}
			}
		case *ssa.UnOp:
			if x.Op == token.MUL {
				if si, ok := info[globalName(x.X)]; ok {
					si.loads = append(si.loads, in)
				}
			}
		}
	})
	streaming := func(b *ssa.BasicBlock) bool {
		return facts.Holds(b, func(ft an.Fact) bool { return ft.Val && an.IsResultOf(ft.Cond, diP+".isStreamingInvoke", -1) })
	}
	var names []string
	for g := range settings {
		names = append(names, g)
	}
	sort.Strings(names)
	for _, g := range names {
		si := info[g]
		short := strings.TrimPrefix(g, diP+".")
		// the first default store
		if len(si.defaults) == 0 {
			c.Check("R-DEFASSIGN", name+"/"+short, "the per-request setting takes its default in every request, independently of earlier requests", false, fpos(f), 0, "no default store of %s in this function", short)
			continue
		}
		def := si.defaults[0]
		ord := an.NewOrder(f, func(in ssa.Instruction) uint64 {
			if in == ssa.Instruction(def) {
				return 1
			}
			return 0
		})
		ok := true
		var bad []string
		// every load and every override store is preceded by the default store
		for _, l := range si.loads {
			if must, _ := ord.Before(l); must&1 == 0 {
				ok = false
				bad = append(bad, sprintf("read at line %d", c.P.Fset.Position(an.InstrPos(l)).Line))
			}
		}
		for _, o := range append(si.others, si.defaults[1:]...) {
			if must, _ := ord.Before(o); must&1 == 0 {
				ok = false
				bad = append(bad, sprintf("assignment at line %d", c.P.Fset.Position(an.InstrPos(o)).Line))
			}
		}
		scope := "on every path"
		if short == "ResponseBandwidthRate" || short == "ResponseBandwidthBurstSize" {
			scope = "on every path through the streaming block"
			// default store inside the streaming block, and every success exit reached through that block has it
			if !streaming(def.Block()) {
				ok = false
				bad = append(bad, "default store is not in the streaming block")
			}
			for _, e := range an.Exits(f) {
				if len(e.Vals) == 2 && an.IsNil(e.Vals[1]) {
					must, _ := ord.Before(e.Ret)
					// success exits: either the path went through the streaming block (then must have the default) or not at all.
					// decided per path class with the pruned CFG that keeps only the streaming edge
					ordS := an.NewOrderPruned(f, func(in ssa.Instruction) uint64 {
						if in == ssa.Instruction(def) {
							return 1
						}
						return 0
					}, func(from, to *ssa.BasicBlock) bool {
						ifi, k := from.Instrs[len(from.Instrs)-1].(*ssa.If)
						if !k || !an.IsResultOf(ifi.Cond, diP+".isStreamingInvoke", -1) {
							return false
						}
						return from.Succs[1] == to // drop the non-streaming edge
					})
					mustS, _ := ordS.Before(e.Ret)
					if mustS&1 == 0 {
						ok = false
						bad = append(bad, "a streaming request can succeed without the default having been stored")
					}
					_ = must
				}
			}
		} else {
			// unconditional: dominates every success exit
			for _, e := range an.Exits(f) {
				if len(e.Vals) == 2 && an.IsNil(e.Vals[1]) && !an.InstrDominates(def, e.Ret) {
					ok = false
					bad = append(bad, "a request can succeed without the default having been stored")
				}
			}
		}
		c.Check("R-DEFASSIGN", name+"/"+short, sprintf("the per-request setting %s is assigned its default %s before it is read or overridden (so a request without the header never inherits an earlier request's value)", short, scope), ok, an.InstrPos(def), 1+len(si.loads)+len(si.others), "default stores: %d, overrides: %d, reads: %d; problems: %v", len(si.defaults), len(si.others), len(si.loads), bad)
	}
	// consumers of rate/burst run only for streaming invokes
	var cons []string
	for _, h := range repoFuncs(c) {
		if h.Pkg == nil || !strings.HasPrefix(h.Pkg.Pkg.Path(), "go.amzn.com") || strings.HasPrefix(an.FuncName(h), "L/testdata.") {
			continue
		}
		an.AllInstrs(h, func(in ssa.Instruction) {
			if u, ok := in.(*ssa.UnOp); ok && u.Op == token.MUL {
				if g := globalName(u.X); g == diP+".ResponseBandwidthRate" || g == diP+".ResponseBandwidthBurstSize" {
					cons = append(cons, an.FuncName(h))
				}
			}
		})
	}
	cons = uniq(cons)
	c.Check("R-WHO", diP+"/rate-burst-readers", "rate and burst are read only when the streamed response writer is built", strings.Join(cons, ",") == diP+".NewStreamedResponseWriter", token.NoPos, len(cons), "readers: %v", cons)
	if sd := fn(c, diP, "SendDirectInvokeResponse"); sd != nil {
		sf := an.NewFacts(sd)
		ok := true
		n := 0
		for _, call := range an.CallsTo(sd, diP+".sendStreamingInvokeResponse", diP+".sendStreamingInvokeErrorResponse") {
			n++
			g := sf.Holds(call.Block(), func(ft an.Fact) bool {
				return an.CmpEq(ft, true, func(v ssa.Value) bool { return an.GlobalOf(v) == diP+".InvokeResponseMode" }, func(v ssa.Value) bool { s, k := an.ConstString(v); return k && s == "Streaming" })
			})
			if !g {
				ok = false
			}
		}
		c.Check("R-GUARD", an.FuncName(sd)+"/streaming-writer-only-for-streaming", "the rate-limited writer is used exactly for streaming invokes", ok && n == 2, fpos(sd), n, "streaming senders under InvokeResponseMode == Streaming: %v", ok)
	}
}

func checkTokenValidation(c *report.Ctx) {
	f := fn(c, diP, "ReceiveDirectInvoke")
	if f == nil {
		return
	}
	name := an.FuncName(f)
	facts := an.NewFacts(f)
	type cmp struct {
		invField, tokField, errName string
	}
	cmps := []cmp{{"ID", "InvokeID", "ErrInvalidInvokeID"}, {"ReservationToken", "ReservationToken", "ErrInvalidReservationToken"}, {"VersionID", "VersionID", "ErrInvalidFunctionVersion"}}
	isInv := func(fld string) func(ssa.Value) bool { return loadOf("L/interop.Invoke", fld) }
	isTok := func(fld string) func(ssa.Value) bool {
		return func(v ssa.Value) bool {
			v = an.Strip(v, true)
			if fr, ok := an.AsField(v); ok && fr.Struct == "L/interop.Token" && fr.Field == fld {
				return true
			}
			return false
		}
	}
	var succ []an.Exit
	for _, e := range an.Exits(f) {
		if len(e.Vals) == 2 && an.IsNil(e.Vals[1]) {
			succ = append(succ, e)
		}
	}
	c.Check("R-COUNT", name+"/success-exit", "there is one accepting exit", len(succ) == 1, fpos(f), len(succ), "%d", len(succ))
	for _, e := range succ {
		b := e.Ret.Block()
		for _, cm := range cmps {
			ok := facts.Holds(b, func(ft an.Fact) bool { return an.CmpEq(ft, true, isInv(cm.invField), isTok(cm.tokField)) })
			c.Check("R-GUARD", name+"/accept-only-if/"+cm.tokField, "a request is accepted only if its "+cm.invField+" equals the reservation token's "+cm.tokField, ok, an.InstrPos(e.Ret), 1, "facts: %s", factsString(facts.At(b)))
		}
		okD := facts.Holds(b, func(ft an.Fact) bool {
			r, k := an.AsRel(ft)
			if !k {
				return false
			}
			for _, rr := range []an.Rel{r, r.Flip()} {
				if an.IsResultOf(rr.X, "L/metering.Monotime", -1) && isTok("InvackDeadlineNs")(rr.Y) && rr.Op == token.LEQ {
					return true
				}
			}
			return false
		})
		c.Check("R-GUARD", name+"/accept-only-if/not-expired", "a request is accepted only while the reservation has not expired (now <= invack deadline)", okD, an.InstrPos(e.Ret), 1, "facts: %s", factsString(facts.At(b)))
	}
	// failing exits: renderBadRequest(w, r, X.Error()) in the same block, return X
	want := map[string]bool{}
	for _, n := range []string{"ErrMalformedCustomerHeaders", "ErrInvalidMaxPayloadSize", "ErrInvalidResponseBandwidthRate", "ErrInvalidResponseBandwidthBurstSize", "ErrInvalidInvokeID", "ErrInvalidReservationToken", "ErrInvalidFunctionVersion", "ErrReservationExpired"} {
		want["L/interop."+n] = true
	}
	got := map[string]bool{}
	okAll := true
	for _, e := range an.Exits(f) {
		if len(e.Vals) != 2 || an.IsNil(e.Vals[1]) {
			continue
		}
		g := an.GlobalOf(e.Vals[1])
		// (the one-line render helpers are looked through, internal/load/norm.go: the rule reads the header and
		// status writes themselves, whatever helper - if any - wraps them)
		rendered, status400 := false, false
		for _, in := range e.Ret.Block().Instrs {
			call, ok := in.(ssa.CallInstruction)
			if !ok {
				continue
			}
			switch an.Callee(call) {
			case "net/http.ResponseWriter.WriteHeader":
				if n, k := an.ConstInt(call.Common().Args[0]); k && n == 400 {
					status400 = true
				}
			case "net/http.Header.Set":
				a := call.Common().Args
				if len(a) != 3 {
					continue
				}
				if k, isC := an.ConstString(a[1]); !isC || k != errTypeHeaderName(c) {
					continue
				}
				if ec, _ := an.CallOf(a[2]); ec != nil && strings.HasSuffix(an.Callee(ec), ".Error") {
					if g == "" || an.GlobalOf(receiverOf(ec)) == g {
						rendered = true
					}
					// err.Error() of the returned local error
					if g == "" && receiverOf(ec) == an.Strip(e.Vals[1], false) {
						rendered = true
					}
				}
			}
		}
		rendered = rendered && status400
		if g != "" {
			got[g] = true
		}
		if !rendered || !an.IsNil(e.Vals[0]) {
			okAll = false
		}
	}
	missing := []string{}
	for w := range want {
		if !got[w] {
			missing = append(missing, w)
		}
	}
	sort.Strings(missing)
	c.Check("R-CONST", name+"/refusals", "every refusal renders 400 with the error it returns, and returns no invoke; all documented refusal causes are present", okAll && len(missing) == 0, fpos(f), len(got), "refusal errors: %v; missing: %v; each rendered+returned: %v", keysOf(got), missing, okAll)
	// range checks
	for _, rc := range []struct{ glob, min, max string }{
		{diP + ".ResponseBandwidthRate", "MinResponseBandwidthRate", "MaxResponseBandwidthRate"},
		{diP + ".ResponseBandwidthBurstSize", "MinResponseBandwidthBurstSize", "MaxResponseBandwidthBurstSize"},
	} {
		kmin, kmax := c.P.Const("L/interop", rc.min), c.P.Const("L/interop", rc.max)
		if kmin == nil || kmax == nil {
			c.Unresolved("ANCHOR", "L/interop."+rc.min, "range constants not found")
			continue
		}
		vmin, _ := an.ConstInt(kmin.Value)
		vmax, _ := an.ConstInt(kmax.Value)
		ok := false
		an.AllInstrs(f, func(in ssa.Instruction) {
			st, k := in.(*ssa.Store)
			if !k || globalName(st.Addr) != rc.glob {
				return
			}
			if _, isC := an.Strip(st.Val, true).(*ssa.Const); isC {
				return
			}
			lo := facts.Holds(st.Block(), func(ft an.Fact) bool {
				r, k := an.AsRel(ft)
				if !k {
					return false
				}
				for _, rr := range []an.Rel{r, r.Flip()} {
					if n, isC := an.ConstInt(rr.X); isC && n == vmin && rr.Op == token.LEQ && rr.Y == st.Val {
						return true
					}
				}
				return false
			})
			hi := facts.Holds(st.Block(), func(ft an.Fact) bool {
				r, k := an.AsRel(ft)
				if !k {
					return false
				}
				for _, rr := range []an.Rel{r, r.Flip()} {
					if n, isC := an.ConstInt(rr.Y); isC && n == vmax && rr.Op == token.LEQ && rr.X == st.Val {
						return true
					}
				}
				return false
			})
			if lo && hi {
				ok = true
			}
		})
		c.Check("R-GUARD", name+"/range/"+strings.TrimPrefix(rc.glob, diP+"."), "a header value is taken only within [min, max] inclusive", ok, fpos(f), 2, "override guarded by %d <= n <= %d: %v", vmin, vmax, ok)
	}
}

func receiverOf(cl *ssa.Call) ssa.Value {
	if cl.Call.IsInvoke() {
		return an.Strip(cl.Call.Value, false)
	}
	if len(cl.Call.Args) > 0 {
		return an.Strip(cl.Call.Args[0], false)
	}
	return nil
}

func checkPayloadCopy(c *report.Ctx) {
	g := fn(c, diP, "asyncPayloadCopy$1")
	if g != nil {
		name := an.FuncName(g)
		facts := an.NewFacts(g)
		isMax := func(v ssa.Value) bool { return an.GlobalOf(v) == diP+".MaxDirectResponseSize" }
		// LimitReader(payload, Max+1) under restricted
		okLR := false
		for _, call := range an.CallsTo(g, "io.LimitReader") {
			if bo, k := call.Common().Args[1].(*ssa.BinOp); k && bo.Op == token.ADD && isMax(bo.X) {
				if n, kk := an.ConstInt(bo.Y); kk && n == 1 {
					okLR = facts.Holds(call.Block(), func(ft an.Fact) bool {
						return an.CmpEq(ft, false, isMax, func(v ssa.Value) bool { n, k := an.ConstInt(v); return k && n == -1 })
					})
				}
			}
		}
		c.Check("R-WIRE", name+"/limit-plus-one", "a size-restricted copy reads at most one byte past the per-request limit (enough to tell 'oversized', cut one byte past it)", okLR, fpos(g), 1, "LimitReader(payload, limit+1) under limit != -1: %v", okLR)
		// oversized <=> copied > Max
		okOv := false
		an.AllInstrs(g, func(in ssa.Instruction) {
			if bo, k := in.(*ssa.BinOp); k && bo.Op == token.GTR && isMax(bo.Y) && an.IsResultOf(bo.X, bwP+".BandwidthLimitingCopy", 0) {
				okOv = true
			}
		})
		c.Check("R-CONST", name+"/oversized-strict", "'oversized' means strictly more bytes copied than the limit", okOv, fpos(g), 1, "copiedBytes > MaxDirectResponseSize: %v", okOv)
		// trailer exactly once per path
		isTrailer := func(in ssa.Instruction) bool {
			call, ok := in.(ssa.CallInstruction)
			if !ok || an.Callee(call) != "net/http.Header.Set" {
				return false
			}
			s, k := an.ConstString(call.Common().Args[1])
			return k && s == "End-Of-Response"
		}
		min, max := an.Count(g, isTrailer)
		c.Check("R-COUNT", name+"/trailer-once", "the End-Of-Response trailer is set exactly once on every path", min == 1 && max == 1, fpos(g), 3, "per path: min %d, max %d", min, max)
		// values vs conditions
		vals := map[string]string{}
		an.AllInstrs(g, func(in ssa.Instruction) {
			if !isTrailer(in) {
				return
			}
			call := in.(ssa.CallInstruction)
			v, _ := an.ConstString(call.Common().Args[2])
			b := in.Block()
			cond := "else"
			if facts.Holds(b, func(ft an.Fact) bool {
				return an.CmpNil(ft, false, func(x ssa.Value) bool { return an.IsResultOf(x, bwP+".BandwidthLimitingCopy", 1) })
			}) {
				cond = "copy-error"
			} else if facts.Holds(b, func(ft an.Fact) bool {
				bo, k := ft.Cond.(*ssa.BinOp)
				return k && ft.Val && bo.Op == token.GTR && isMax(bo.Y)
			}) {
				cond = "oversized"
			}
			vals[cond] = v
		})
		c.Check("R-CONST", name+"/classification", "Truncated exactly on a copy error, Oversized exactly when restricted and over the limit, Complete otherwise", vals["copy-error"] == "Truncated" && vals["oversized"] == "Oversized" && vals["else"] == "Complete", fpos(g), 3, "%v", vals)
		// one send on copyDone, then cancel
		sends := allSends(g)
		okS := len(sends) == 1 && chanName(sends[0].Chan) == "copyDone" && !an.InLoop(sends[0])
		if okS {
			for _, e := range an.Exits(g) {
				if !an.InstrDominates(sends[0], e.Ret) {
					okS = false
				}
			}
		}
		c.Check("R-COUNT", name+"/one-result", "exactly one copy result is delivered, on every path (the copy always reports termination)", okS, fpos(g), len(sends), "%d sends", len(sends))
	}
	// reset path of the streaming response sender
	for _, fname := range []string{"sendStreamingInvokeResponse", "sendStreamingInvokeErrorResponse"} {
		f := fn(c, diP, fname)
		if f == nil {
			continue
		}
		name := an.FuncName(f)
		facts := an.NewFacts(f)
		var sel *ssa.Select
		an.AllInstrs(f, func(in ssa.Instruction) {
			if s, k := in.(*ssa.Select); k {
				sel = s
			}
		})
		if sel == nil {
			c.Check("R-ORDER", name+"/reset-path", "the sender selects between copy completion and a reset", false, fpos(f), 0, "no select")
			continue
		}
		resetIdx := -1
		for i, st := range sel.States {
			if chanName(st.Chan) == "interruptedResponseChan" || strings.Contains(an.Path(st.Chan), "interruptedResponseChan") {
				resetIdx = i
			}
			if p, k := st.Chan.(*ssa.Parameter); k && p.Name() == "interruptedResponseChan" {
				resetIdx = i
			}
		}
		inReset := func(in ssa.Instruction) bool {
			s2, idx := selectCase(facts, in.Block())
			return s2 == sel && idx == resetIdx
		}
		var cancelCall, closeConn, recvDone, ack ssa.Instruction
		an.AllInstrs(f, func(in ssa.Instruction) {
			if !inReset(in) {
				return
			}
			switch x := in.(type) {
			case ssa.CallInstruction:
				cal := an.Callee(x)
				if cal == "L/interop.CancellableRequest.Cancel" {
					closeConn = in
				} else if cal == "<dynamic>" && cancelCall == nil {
					cancelCall = in
				}
			case *ssa.UnOp:
				if x.Op == token.ARROW && recvDone == nil {
					recvDone = in
				}
			case *ssa.Send:
				if an.IsNil(x.X) {
					ack = in
				}
			}
		})
		ok := resetIdx >= 0 && cancelCall != nil && recvDone != nil && ack != nil
		detail := sprintf("reset case found: %v; cancel: %v; await copy result: %v; acknowledge: %v", resetIdx >= 0, cancelCall != nil, recvDone != nil, ack != nil)
		if ok {
			ord := an.NewOrder(f, func(in ssa.Instruction) uint64 {
				switch in {
				case cancelCall:
					return 1
				case closeConn:
					return 2
				case recvDone:
					return 4
				}
				return 0
			})
			_, mayAtCancel := ord.Before(cancelCall)
			mustAtRecv, _ := ord.Before(recvDone)
			mustAtAck, _ := ord.Before(ack)
			ok = mayAtCancel&4 == 0 && mustAtRecv&1 != 0 && mustAtAck&4 != 0
			if closeConn != nil {
				_, mayAtClose := ord.Before(closeConn)
				ok = ok && mayAtClose&4 == 0
				detail += sprintf("; the connection is closed before the copy result is awaited: %v", mayAtClose&4 == 0)
			} else if fname == "sendStreamingInvokeResponse" {
				ok = false
				detail += "; the connection close is missing"
			}
			detail += sprintf("; cancel before awaiting: %v; acknowledge after the result: %v", mustAtRecv&1 != 0, mustAtAck&4 != 0)
		}
		c.Check("R-ORDER", name+"/reset-path", "on a reset the writer is cancelled (and, for a runtime response, the runtime's connection closed) BEFORE the copy result is awaited - otherwise a copy blocked on a stalled runtime never terminates - then the metrics are attached and the reset acknowledged", ok, sel.Pos(), 4, "%s", detail)
	}
}

func checkTokenBucket(c *report.Ctx) {
	if f := fn(c, bwP, "(*Throttler).bandwidthLimitingWrite"); f != nil {
		name := an.FuncName(f)
		facts := an.NewFacts(f)
		writes := an.CallsTo(f, "io.Writer.Write")
		cons := an.CallsTo(f, bwP+".Bucket.consumeTokens")
		ok := len(writes) == 1 && len(cons) == 1
		if ok {
			g := facts.Holds(writes[0].Block(), func(ft an.Fact) bool { return ft.Val && an.Strip(ft.Cond, false) == ssa.Value(cons[0].Value()) })
			// n == int64(len(p))
			nOK := false
			if x, isLen := an.LenArg(cons[0].Common().Args[1]); isLen {
				if p, k := x.(*ssa.Parameter); k && p.Name() == "p" {
					nOK = true
				}
			}
			wp := false
			if p, k := writes[0].Common().Args[0].(*ssa.Parameter); k && p.Name() == "p" {
				wp = true
			}
			ok = g && nOK && wp
		}
		c.Check("R-GUARD", name+"/write-after-consume", "bytes are forwarded only after as many tokens as bytes were taken from the bucket", ok, fpos(f), 2, "%v", ok)
		// too-large buffers refused
		okTL := false
		for _, e := range an.Exits(f) {
			if len(e.Vals) == 2 && an.GlobalOf(e.Vals[1]) == bwP+".ErrBufferSizeTooLarge" {
				okTL = facts.Holds(e.Ret.Block(), func(ft an.Fact) bool {
					r, k := an.AsRel(ft)
					return k && r.Op == token.GTR && loadOf(bwP+".Bucket", "capacity")(r.Y)
				})
			}
		}
		c.Check("R-GUARD", name+"/larger-than-bucket-refused", "a buffer larger than the bucket (which could never be paid for) is refused instead of waiting forever", okTL, fpos(f), 1, "%v", okTL)
		// the only wait is on th.produced
		var waits []string
		an.AllInstrs(f, func(in ssa.Instruction) {
			if u, k := in.(*ssa.UnOp); k && u.Op == token.ARROW {
				waits = append(waits, chanName(u.X))
			}
		})
		c.Check("R-CANCEL", name+"/waits-on-refill", "while tokens are missing the writer waits for the refill tick only", len(waits) == 1 && waits[0] == "produced", fpos(f), len(waits), "%v", waits)
	}
	if f := fn(c, bwP, "(*Bucket).consumeTokens"); f != nil {
		facts := an.NewFacts(f)
		held := an.NewHeld(f)
		sts := an.Stores(f, bwP+".Bucket", "tokenCount")
		ok := len(sts) == 1
		if ok {
			g := facts.Holds(sts[0].Block(), func(ft an.Fact) bool {
				r, k := an.AsRel(ft)
				if !k {
					return false
				}
				for _, rr := range []an.Rel{r, r.Flip()} {
					if _, isP := rr.X.(*ssa.Parameter); isP && rr.Op == token.LEQ && loadOf(bwP+".Bucket", "tokenCount")(rr.Y) {
						return true
					}
				}
				return false
			})
			sub := false
			if bo, k := sts[0].Val.(*ssa.BinOp); k && bo.Op == token.SUB {
				_, isP := bo.Y.(*ssa.Parameter)
				sub = isP && loadOf(bwP+".Bucket", "tokenCount")(bo.X)
			}
			ok = g && sub && held.At(sts[0])[f.Params[0].Name()+".mutex"]
		}
		// true returned only there
		okRet := true
		for _, e := range an.Exits(f) {
			if b, k := an.ConstBool(e.Vals[0]); k && b && len(sts) == 1 && !an.InstrDominates(sts[0], e.Ret) {
				okRet = false
			}
		}
		c.Check("R-GUARD", an.FuncName(f)+"/never-overdraws", "tokens are subtracted only when at least that many are available, under the bucket mutex, and success is reported only then", ok && okRet, fpos(f), 1, "%v", ok && okRet)
	}
	if f := fn(c, bwP, "(*Bucket).produceTokens"); f != nil {
		ok := false
		var minFn *ssa.Function
		builtinMin := false
		for _, st := range an.Stores(f, bwP+".Bucket", "tokenCount") {
			cl, _ := an.CallOf(st.Val)
			if cl == nil || len(cl.Call.Args) != 2 {
				continue
			}
			a := cl.Call.Args
			isSum := func(v ssa.Value) bool {
				bo, k := v.(*ssa.BinOp)
				return k && bo.Op == token.ADD && (loadOf(bwP+".Bucket", "tokenCount")(bo.X) && loadOf(bwP+".Bucket", "refillNumber")(bo.Y) || loadOf(bwP+".Bucket", "tokenCount")(bo.Y) && loadOf(bwP+".Bucket", "refillNumber")(bo.X))
			}
			isCap := loadOf(bwP+".Bucket", "capacity")
			if !(isSum(a[0]) && isCap(a[1])) && !(isSum(a[1]) && isCap(a[0])) {
				continue
			}
			// the function applied is a minimum: min64 of the pinned tree, any function that returns the smaller of
			// its two arguments (decided per ordering), or the builtin
			if bi, k := cl.Call.Value.(*ssa.Builtin); k && bi.Name() == "min" {
				ok, builtinMin = true, true
			} else if g := cl.Call.StaticCallee(); g != nil && isMinFunc(g) {
				ok, minFn = true, g
			}
		}
		// or the minimum written out: the sum where it is below (or at) the capacity, the capacity where it is not
		writtenOut := false
		if !ok {
			isSumV := func(v ssa.Value) bool {
				bo, k := an.Strip(v, true).(*ssa.BinOp)
				return k && bo.Op == token.ADD && (loadOf(bwP+".Bucket", "tokenCount")(bo.X) && loadOf(bwP+".Bucket", "refillNumber")(bo.Y) || loadOf(bwP+".Bucket", "tokenCount")(bo.Y) && loadOf(bwP+".Bucket", "refillNumber")(bo.X))
			}
			isCapV := loadOf(bwP+".Bucket", "capacity")
			pf := an.NewFacts(f)
			below := func(b *ssa.BasicBlock, want bool) bool { // sum < capacity (or <=) known true / known false
				return pf.Holds(b, func(ft an.Fact) bool {
					r, k := an.AsRel(ft)
					if !k {
						return false
					}
					for _, rr := range []an.Rel{r, r.Flip()} {
						if isSumV(rr.X) && isCapV(rr.Y) {
							switch rr.Op {
							case token.LSS, token.LEQ:
								return want
							case token.GEQ, token.GTR:
								return !want
							}
						}
					}
					return false
				})
			}
			gotSum, gotCap, other := false, false, false
			for _, st := range an.Stores(f, bwP+".Bucket", "tokenCount") {
				switch {
				case isSumV(st.Val) && below(st.Block(), true):
					gotSum = true
				case isCapV(st.Val) && below(st.Block(), false):
					gotCap = true
				default:
					other = true
				}
			}
			writtenOut = gotSum && gotCap && !other
			ok = writtenOut
		}
		c.Check("R-GUARD", an.FuncName(f)+"/capped-refill", "a refill adds the refill number and never exceeds the capacity", ok, fpos(f), 1, "tokenCount = min(tokenCount+refillNumber, capacity): %v", ok)
		what := "builtin min"
		if minFn != nil {
			what = an.FuncName(minFn)
		}
		if writtenOut {
			what = "written out as a comparison"
		}
		c.Check("R-SHAPE", bwP+".min64/is-min", "the function that caps the refill returns the smaller argument", minFn != nil || builtinMin || writtenOut, fpos(f), 1, "%s", what)
	}
	if f := fn(c, bwP, "(*BandwidthLimitingWriter).Write"); f != nil {
		facts := an.NewFacts(f)
		ch := an.CallsTo(f, bwP+".BandwidthLimitingWriter.ChunkedWrite")
		ok := len(ch) == 1 && facts.Holds(ch[0].Block(), func(ft an.Fact) bool {
			r, k := an.AsRel(ft)
			return k && r.Op == token.GTR && loadOf(bwP+".Bucket", "capacity")(r.Y)
		})
		st := an.CallsTo(f, bwP+".Throttler.start")
		c.Check("R-GUARD", an.FuncName(f)+"/chunks-large-writes", "a write larger than the bucket capacity is split into chunks (each payable), and the ticker is started", ok && len(st) == 1, fpos(f), 2, "%v", ok)
	}
	if f := fn(c, bwP, "(*BandwidthLimitingWriter).ChunkedWrite"); f != nil {
		ok := false
		for _, call := range an.CallsTo(f, bwP+".NewChunkIterator") {
			ok = loadOf(bwP+".Bucket", "capacity")(an.Strip(call.Common().Args[1], true))
		}
		c.Check("R-WIRE", an.FuncName(f)+"/chunk-size-is-capacity", "the chunk size is the bucket capacity", ok, fpos(f), 1, "%v", ok)
	}
	if f := fn(c, diP, "NewStreamedResponseWriter"); f != nil {
		ok := false
		for _, call := range an.CallsTo(f, bwP+".NewBucket") {
			a := call.Common().Args
			burst := func(v ssa.Value) bool { return an.GlobalOf(v) == diP+".ResponseBandwidthBurstSize" }
			refill := false
			if bo, k := a[2].(*ssa.BinOp); k && bo.Op == token.QUO {
				n, _ := an.ConstInt(bo.Y)
				if mul, k2 := bo.X.(*ssa.BinOp); k2 && mul.Op == token.MUL && an.GlobalOf(mul.X) == diP+".ResponseBandwidthRate" {
					m, _ := an.ConstInt(mul.Y)
					refill = n == 1000 && m == 125
				}
			}
			iv, _ := an.ConstInt(a[3])
			ok = burst(a[0]) && burst(a[1]) && refill && iv == 125000000
		}
		c.Check("R-CONST", an.FuncName(f)+"/bucket-parameters", "the bucket starts full with capacity = burst and is refilled by rate x 125/1000 every 125 ms (so volume(t) <= burst + rate x t up to tick granularity)", ok, fpos(f), 4, "%v", ok)
	}
	// termination: ticker goroutine stops only on done; done is sent only by stop(); stop called after io.Copy returned
	if f := fn(c, bwP, "BandwidthLimitingCopy"); f != nil {
		cp := an.CallsTo(f, "io.Copy")
		cl := an.CallsTo(f, bwP+".BandwidthLimitingWriter.Close")
		ok := len(cp) == 1 && len(cl) == 1 && an.InstrDominates(cp[0], cl[0])
		c.Check("R-ORDER", an.FuncName(f)+"/stop-after-copy", "the refill ticker is stopped only after the copy returned (a waiting write is never starved of refills)", ok, fpos(f), 2, "%v", ok)
	}
	// refills are paced by the ticker: every produceTokens call of the refill goroutine sits in the select case
	// that received a tick (a refill before the first tick, or one per loop turn regardless of the tick, lifts
	// the volume above burst + rate x t)
	if st := fn(c, bwP, "(*Throttler).start"); st != nil {
		var g *ssa.Function
		for _, a := range st.AnonFuncs {
			if len(an.CallsTo(a, bwP+".Bucket.produceTokens")) > 0 {
				g = a
			}
		}
		if g == nil {
			// (the function is there and the step is not: that is a violation, not an unresolved anchor)
			c.Check("R-GUARD", bwP+".Throttler.start/refill-only-on-tick", "the throttler's goroutine refills the bucket through produceTokens (the one place that adds refillNumber tokens, capped at the capacity), once per tick", false, fpos(st), 1, "no goroutine of Throttler.start calls produceTokens")
		} else {
			facts := an.NewFacts(g)
			ok, n := true, 0
			for _, call := range an.CallsTo(g, bwP+".Bucket.produceTokens") {
				n++
				sel, idx := selectCase(facts, call.Block())
				tick := false
				if sel != nil && idx >= 0 && idx < len(sel.States) && sel.Blocking {
					if fa, k := an.AsField(an.Strip(sel.States[idx].Chan, false)); k && fa.Struct == "time.Ticker" && fa.Field == "C" {
						tick = true
					}
				}
				if !tick {
					ok = false
				}
			}
			// the ticker's period is the bucket's refill interval
			per := false
			for _, call := range an.CallsTo(g, "time.NewTicker") {
				per = loadOf(bwP+".Bucket", "refillInterval")(an.Strip(call.Common().Args[0], false))
			}
			c.Check("R-GUARD", an.FuncName(g)+"/refill-only-on-tick", "tokens are produced only in the select case that received a tick of a ticker whose period is the bucket's refill interval", ok && n >= 1 && per, fpos(g), n+1, "produceTokens sites: %d, all in the ticker case of a blocking select: %v; ticker period is refillInterval: %v", n, ok, per)
		}
	}
	sites := siteFns(callSites(c, bwP+".Throttler.stop"))
	c.Check("R-WHO", bwP+".Throttler.stop/callers", "the ticker is stopped only through the writer's Close", strings.Join(sites, ",") == bwP+".BandwidthLimitingWriter.Close", token.NoPos, len(sites), "%v", sites)
}

var _ = report.Discharged

// checkTrailerDeclarations: net/http sends only trailers that were declared in the "Trailer" header before
// the body. The End-Of-Response trailer is declared once, with Set, when the direct invoke is received; every
// later declaration ADDS to the header (a Set or Del would withdraw End-Of-Response and the caller could no
// longer tell a complete response from a truncated or oversized one).
func checkTrailerDeclarations(c *report.Ctx) {
	nSet, nAdd := 0, 0
	var bad []string
	var pos token.Pos
	for _, f := range repoFuncs(c) {
		if !strings.HasPrefix(an.FuncName(f), diP+".") {
			continue
		}
		for _, call := range an.CallsTo(f, "net/http.Header.Set", "net/http.Header.Del", "net/http.Header.Add") {
			a := call.Common().Args
			if len(a) < 2 {
				continue
			}
			if k, isC := an.ConstString(a[1]); !isC || !strings.EqualFold(k, "Trailer") {
				continue
			}
			switch an.Callee(call) {
			case "net/http.Header.Add":
				nAdd++
			default:
				nSet++
				v := ""
				if len(a) == 3 {
					v, _ = an.ConstString(a[2])
				}
				if an.Callee(call) != "net/http.Header.Set" || an.FuncName(f) != diP+".ReceiveDirectInvoke" || v != "End-Of-Response" {
					bad = append(bad, an.FuncName(f)+": "+an.Callee(call)+"(\"Trailer\", "+v+")")
					if pos == token.NoPos {
						pos = an.InstrPos(call)
					}
				}
			}
		}
	}
	c.Check("R-WHO", diP+"/trailer-declarations", "the Trailer header is initialised once (End-Of-Response, on receiving the direct invoke) and only added to afterwards", len(bad) == 0 && nSet == 1 && nAdd >= 2, pos, nSet+nAdd, "Set/Del: %d, Add: %d; not allowed: %v", nSet, nAdd, bad)
}

// errTypeHeaderName: the header that carries the error type of a direct-invoke refusal.
func errTypeHeaderName(c *report.Ctx) string {
	if k := c.P.Const(diP, "ErrorTypeHeader"); k != nil {
		s, _ := an.ConstString(k.Value)
		return s
	}
	return "Error-Type"
}

// isMinFunc: g has two integer parameters and returns the smaller one (decided by following its comparisons for
// each ordering of the two).
func isMinFunc(g *ssa.Function) bool {
	if len(g.Params) != 2 || len(g.Blocks) == 0 {
		return false
	}
	for _, pr := range [][2]int64{{-1, 0}, {0, 1}, {2, 5}, {1, 0}, {5, 2}, {0, -3}, {4, 4}} {
		ret, resolve, ok := decideWalk(g, []int64{pr[0], pr[1]})
		if !ok || len(ret.Results) != 1 {
			return false
		}
		v := resolve(ret.Results[0])
		switch {
		case pr[0] < pr[1]:
			if v != ssa.Value(g.Params[0]) {
				return false
			}
		case pr[1] < pr[0]:
			if v != ssa.Value(g.Params[1]) {
				return false
			}
		default:
			if v != ssa.Value(g.Params[0]) && v != ssa.Value(g.Params[1]) {
				return false
			}
		}
	}
	return true
}
