#!/bin/sh
# usage: run.sh <property id> [quick|thorough]
# Decides the property's structural clauses for /repo's current working tree
# (re-parsed and re-type-checked on every run). Exit 0 = held; 1 = VIOLATION
# line(s) printed; 2 = the checker could not decide (unresolved anchor, type
# errors, loader problem) - never a silent pass.
here="$(cd "$(dirname "$0")" && pwd)"
id="$1"; tier="${2:-${VERIF_TIER:-quick}}"
unset GOWORK
export GOPROXY=off GOSUMDB=off GOTOOLCHAIN=local
# (re)build the checker when missing or older than its sources
need=0
[ -x "$here/bin/riecheck" ] || need=1
if [ $need = 0 ] && [ -n "$(find "$here/checker" \( -name '*.go' -o -name 'baseline_funcs.txt' \) \( -not -path '*/vendor/*' -o -name 'verifnorm.go' \) -newer "$here/bin/riecheck" 2>/dev/null | head -1)" ]; then need=1; fi
if [ $need = 1 ]; then "$here/setup.sh" >/dev/null || { echo "ERROR cannot build checker"; exit 2; }; fi
if [ "$tier" = thorough ]; then
  "$here/selftest.sh" "$id" > "$here/evidence/.selftest-$id.log" 2>&1
  st=$?
  tail -n 3 "$here/evidence/.selftest-$id.log"
  exec "$here/bin/riecheck" -property "$id" -tier thorough -repo "${VERIF_REPO:-/repo}" -verif "$here" -selftest "$here/evidence/.selftest-$id.json" -selftest-status $st
fi
exec "$here/bin/riecheck" -property "$id" -tier quick -repo "${VERIF_REPO:-/repo}" -verif "$here"
