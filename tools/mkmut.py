#!/usr/bin/env python3
"""mkmut.py PROP NAME FILE  (stdin: OLD\n=====\nNEW) -> writes selftest/PROP/NAME.diff (unified diff against /repo's file)."""
import sys, difflib, os
prop, name, path = sys.argv[1:4]
old, new = sys.stdin.read().split("\n=====\n")
new = new.rstrip("\n")
old = old.rstrip("\n")
src = open(os.path.join("/repo", path)).read()
if src.count(old) != 1:
    sys.exit("OLD occurs %d times in %s" % (src.count(old), path))
dst = src.replace(old, new)
diff = "".join(difflib.unified_diff(src.splitlines(True), dst.splitlines(True), "a/" + path, "b/" + path))
d = os.path.join(os.path.dirname(os.path.abspath(__file__)), "..", "selftest", prop)
os.makedirs(d, exist_ok=True)
open(os.path.join(d, name + ".diff"), "w").write(diff)
print("wrote", os.path.join("selftest", prop, name + ".diff"))
