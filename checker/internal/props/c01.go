package props

import (
	"go/token"
	"go/types"
	"sort"
	"strings"

	"golang.org/x/tools/go/ssa"

	"verif/checker/internal/an"
	"verif/checker/internal/report"
)

func init() {
	register(&Prop{
		Spec: report.Spec{
			ID: "C01",
			Explanation: "Structural necessary conditions of the byte-exact round trip with exactly one outcome, located where the property's risk lies (buffer reuse across invocations, reservation state): the per-init request buffer is reset before every reuse and InvokeRenderer objects are built only by the constructor that does so; the event is read once through LimitReader into that buffer and only filled/measured/read-without-consuming, and the body written to the runtime is exactly the buffer's bytes; " +
				"the runtime headers and the front end's Invoke record are wired from the right fields (request id, client context decoded from base64, ARN, deadline = ParseInt -> MonoToEpoch -> ms); the emulator draws a fresh uuid per reservation, FastInvoke overwrites the id with the reserved one, and the deadline is Monotime()+Token.FunctionTimeout with FunctionTimeout wired from Init's timeout; " +
				"the single reply sink is guarded (id, ReplySent, stream), writes at most once and marks ReplySent; the front end returns the proxy's body. " +
				"Added after the blind rounds: one body per request path; the answer follows the reset and the reset clears stale completion messages; the reply sink is one critical section; a response is delivered whole or refused as too large. " +
				"NOT decided: byte equality itself through io.Reader/ResponseWriter implementations; 'to nobody else' across goroutines beyond the single-writer/lock argument; the HTTP stack.",
			RuleText:    "one obligation per buffer operation site, per header/field wiring edge (origin set of the value), per exit/producer of the reply sink",
			Assumptions: trusted,
			MinObs:      45,
		},
		Run: runC01,
	})
}

func runC01(c *report.Ctx) {
	c.Clause("1 request buffer cleared before reuse")
	checkRendererConstruction(c)
	c.Clause("2 payload read once, same bytes written")
	checkEventBuffer(c, false)
	c.Clause("3 header wiring")
	checkHeaderWiring(c)
	checkNoDeclaredLength(c)
	checkFrontEndWiring(c)
	c.Clause("4 fresh id and deadline")
	checkIDAndDeadline(c)
	c.Clause("5 exactly one reply to this reservation")
	checkReplySinkGuards(c)
	c.Clause("6 one outcome per invocation: answer after reset, stale DONE cleared")
	checkInvokeRefusalPath(c)
	checkOversize(c) // a response is either delivered whole or refused as too large, never cut
}

func checkRendererConstruction(c *report.Ctx) {
	T := "L/rapi/rendering.InvokeRenderer"
	ctor := fn(c, "L/rapi/rendering", "NewInvokeRenderer")
	if ctor == nil {
		return
	}
	// composite literals (allocs) of InvokeRenderer anywhere
	var builders []string
	for _, f := range repoFuncs(c) {
		an.AllInstrs(f, func(in ssa.Instruction) {
			if a, ok := in.(*ssa.Alloc); ok && isAllocOf(a, T) {
				builders = append(builders, an.FuncName(f))
			}
		})
	}
	sort.Strings(builders)
	c.Check("R-WHO", T+"/constructed-only-by-constructor", "invoke renderers are built only by NewInvokeRenderer (which clears the reused buffer)", strings.Join(builders, ",") == "L/rapi/rendering.NewInvokeRenderer", fpos(ctor), len(builders), "builders: %v", builders)
	// Reset on the parameter precedes the store of that parameter into the literal
	var bufParam *ssa.Parameter
	for _, p := range ctor.Params {
		if p.Type().String() == "*bytes.Buffer" {
			bufParam = p
		}
	}
	if bufParam == nil {
		c.Unresolved("ANCHOR", "L/rapi/rendering.NewInvokeRenderer/buffer-param", "no *bytes.Buffer parameter")
		return
	}
	var reset ssa.CallInstruction
	for _, call := range an.CallsTo(ctor, "bytes.Buffer.Reset") {
		if call.Common().Args[0] == ssa.Value(bufParam) {
			reset = call
		}
	}
	sts := an.Stores(ctor, T, "requestBuffer")
	ok := reset != nil && len(sts) == 1 && sts[0].Val == ssa.Value(bufParam) && an.InstrDominates(reset, sts[0])
	for _, e := range an.Exits(ctor) {
		if reset != nil && !an.InstrDominates(reset, e.Ret) {
			ok = false
		}
	}
	c.Check("R-ORDER", "L/rapi/rendering.NewInvokeRenderer/reset-before-reuse", "the request buffer handed in is reset on every path before it becomes the new renderer's buffer (no bytes of an earlier, possibly larger, event survive)", ok, fpos(ctor), 2, "Reset call on the parameter: %v; stores of the parameter: %d", reset != nil, len(sts))
	// the reuse is real: HandleInvoke's buffer is the init context's single buffer
	if sr := fn(c, rapidcP, "(invokeContext).SendRequest$1"); sr != nil {
		ok := false
		for _, call := range an.CallsTo(sr, "L/interop.RapidContext.HandleInvoke") {
			for _, a := range call.Common().Args {
				if fr, k := an.AsField(an.Strip(a, false)); k && fr.Field == "invokeRequestBuffer" {
					ok = true
				}
			}
		}
		c.Check("R-WIRE", "L/rapidcore.invokeContext.SendRequest/buffer-is-per-init", "the buffer passed to every invocation is the one allocated once per initialisation (so the reset rule above is what protects later invocations)", ok, fpos(sr), 1, "HandleInvoke receives invokeRequestBuffer: %v", ok)
	}
	if rs := fn(c, rapidcP, "(initContext).Reserve"); rs != nil {
		ok := false
		for _, st := range an.Stores(rs, "L/rapidcore.invokeContext", "invokeRequestBuffer") {
			if fr, k := an.AsField(an.Strip(st.Val, false)); k && fr.Struct == "L/rapidcore.initContext" && fr.Field == "invokeRequestBuffer" {
				ok = true
			}
		}
		c.Check("R-WIRE", "L/rapidcore.initContext.Reserve/buffer-shared", "each reservation's invoke context gets the init context's buffer", ok, fpos(rs), 1, "wired: %v", ok)
	}
	// doInvoke passes its buffer parameter to the constructor
	if di := fn(c, "L/rapid", "doInvoke"); di != nil {
		ok := false
		for _, g := range an.WithAnon(di) {
			for _, call := range an.CallsTo(g, "L/rapi/rendering.NewInvokeRenderer") {
				w := newWire(c, nil, nil)
				or := w.Origins(call.Common().Args[2])
				for _, o := range or {
					if strings.HasPrefix(o, "field:L/rapidcore.invokeContext.invokeRequestBuffer") || strings.HasPrefix(o, "param:") || strings.Contains(o, "invokeRequestBuffer") {
						ok = true
					}
				}
			}
		}
		c.Check("R-WIRE", "L/rapid.doInvoke/renderer-gets-request-buffer", "the renderer of each invocation is built on the request buffer handed down by the sandbox", ok, fpos(di), 1, "wired: %v", ok)
	}
}

func checkHeaderWiring(c *report.Ctx) {
	rre := fn(c, "L/rapi/rendering", "(*InvokeRenderer).RenderRuntimeEvent")
	if rre == nil {
		return
	}
	// the headers are set by the renderer itself or by the helpers of its package it calls (renderInvokeHeaders in
	// the pinned tree): the rule reads the Header.Set calls wherever they are
	rh := rre
	setters := []*ssa.Function{rre}
	seenF := map[*ssa.Function]bool{rre: true}
	for i := 0; i < len(setters) && i < 16; i++ {
		an.AllInstrs(setters[i], func(in ssa.Instruction) {
			if call, ok := in.(ssa.CallInstruction); ok {
				if sc := call.Common().StaticCallee(); sc != nil && !seenF[sc] && len(sc.Blocks) > 0 && strings.HasPrefix(an.FuncName(sc), "L/rapi/rendering.") {
					seenF[sc] = true
					setters = append(setters, sc)
				}
			}
		})
	}
	var setCalls []ssa.CallInstruction
	for _, g := range setters {
		if cs := an.CallsTo(g, "net/http.Header.Set"); len(cs) > 0 {
			setCalls = append(setCalls, cs...)
			if g != rre {
				rh = g
			}
		}
	}
	w := newWire(c, nil, map[string]int{"strconv.ParseInt": 0, "strconv.FormatInt": 0, "L/metering.MonoToEpoch": 0})
	w.ConstArith = true
	want := map[string][]string{
		"Lambda-Runtime-Aws-Request-Id":       {"field:L/interop.Invoke.ID"},
		"Lambda-Runtime-Client-Context":       {"field:L/interop.Invoke.ClientContext"},
		"Lambda-Runtime-Invoked-Function-Arn": {"field:L/interop.Invoke.InvokedFunctionArn"},
		"Lambda-Runtime-Deadline-Ms":          {"field:L/interop.Invoke.DeadlineNs", `const:""`},
	}
	got := map[string][]string{}
	// (the local helper that skips empty values is looked through by the normal form, whether it is a
	// closure or a package-level function: the rule reads the Header.Set calls themselves)
	for _, call := range setCalls {
		args := call.Common().Args
		if len(args) != 3 {
			continue
		}
		if key, isC := an.ConstString(args[1]); isC {
			got[key] = append(got[key], w.Origins(args[2])...)
			continue
		}
		// headers set from a local table of {name, value} rows applied in a loop
		kf, rows := tableRowsOf(args[1])
		vf, rows2 := tableRowsOf(args[2])
		if kf != "" && vf != "" && len(rows) == len(rows2) && an.InLoop(call) {
			for _, row := range rows {
				if key, isC := an.ConstString(row[kf]); isC && row[vf] != nil {
					got[key] = append(got[key], w.Origins(row[vf])...)
				}
			}
		}
	}
	for key, wantO := range want {
		g := got[key]
		ok := len(g) > 0
		for _, o := range g {
			if !oneOf(o, wantO...) {
				ok = false
			}
		}
		if len(g) > 0 && !oneOf(wantO[0], g...) {
			ok = false
		}
		c.Check("R-WIRE", "L/rapi/rendering.renderInvokeHeaders/"+key, sprintf("header %s carries %s of the invocation being rendered", key, strings.TrimPrefix(wantO[0], "field:L/interop.Invoke.")), ok, fpos(rh), len(g), "origins: %v", g)
	}
	// deadline conversion chain present: ParseInt -> MonoToEpoch -> / ms -> FormatInt
	chain := len(an.CallsTo(rre, "strconv.ParseInt")) == 1 && len(an.CallsTo(rre, "L/metering.MonoToEpoch")) == 1 && len(an.CallsTo(rre, "strconv.FormatInt")) == 1
	div := false
	an.AllInstrs(rre, func(in ssa.Instruction) {
		if bo, ok := in.(*ssa.BinOp); ok && bo.Op == token.QUO && an.IsResultOf(bo.X, "L/metering.MonoToEpoch", -1) {
			if n, k := an.ConstInt(bo.Y); k && n == 1000000 {
				div = true
			}
		}
	})
	c.Check("R-WIRE", an.FuncName(rre)+"/deadline-conversion", "the deadline header is the invocation's monotonic deadline converted to epoch and expressed in milliseconds", chain && div, fpos(rre), 4, "ParseInt/MonoToEpoch/FormatInt present: %v; divided by 1e6: %v", chain, div)
	// same conversion for the extensions' event
	// (the helper that builds the event is looked through: internal/load/norm.go transparent list)
	if ae := fn(c, "L/rapi/rendering", "(*InvokeRenderer).RenderAgentEvent"); ae != nil {
		T := "L/rapi/model.AgentInvokeEvent"
		gotF := map[string][]string{}
		for _, st := range an.Stores(ae, T, "") {
			fr, _ := an.AsField(st.Addr)
			gotF[fr.Field] = w.Origins(st.Val)
		}
		for _, st := range an.Stores(ae, "L/rapi/model.AgentEvent", "") {
			fr, _ := an.AsField(st.Addr)
			gotF["AgentEvent."+fr.Field] = w.Origins(st.Val)
		}
		ok := strings.Join(gotF["RequestID"], ",") == "field:L/interop.Invoke.ID" && strings.Join(gotF["InvokedFunctionArn"], ",") == "field:L/interop.Invoke.InvokedFunctionArn" &&
			strings.Join(gotF["AgentEvent.DeadlineMs"], ",") == "field:L/interop.Invoke.DeadlineNs" && strings.Join(gotF["AgentEvent.EventType"], ",") == `const:"INVOKE"`
		trOK := false
		for _, st := range an.Stores(ae, T, "Tracing") {
			if cl, _ := an.CallOf(an.Strip(st.Val, false)); cl != nil && an.Callee(cl) == "L/rapi/model.NewXRayTracing" {
				if fr, k := an.AsField(an.Strip(cl.Call.Args[0], false)); k && fr.Field == "TraceID" {
					trOK = true
				}
			}
		}
		c.Check("R-WIRE", an.FuncName(ae)+"/fields", "the INVOKE event for extensions carries the same request id, ARN and deadline source as the runtime's headers, and the caller's trace id", ok && trOK, fpos(ae), len(gotF), "origins: %v; tracing from TraceID: %v", gotF, trOK)
	}
}

func checkFrontEndWiring(c *report.Ctx) {
	f := fn(c, "M/cmd/aws-lambda-rie", "InvokeHandler")
	if f == nil {
		return
	}
	w := newWire(c, nil, map[string]int{"bytes.NewReader": 0})
	got := map[string][]string{}
	for _, st := range an.Stores(f, "L/interop.Invoke", "") {
		fr, _ := an.AsField(st.Addr)
		got[fr.Field] = w.Origins(st.Val)
	}
	c.Check("R-WIRE", an.FuncName(f)+"/payload", "the event handed to the platform is the complete request body as read", strings.Join(got["Payload"], ",") == "call:io/ioutil.ReadAll#0" || strings.Join(got["Payload"], ",") == "call:io.ReadAll#0", fpos(f), 1, "Payload origins: %v", got["Payload"])
	c.Check("R-WIRE", an.FuncName(f)+"/client-context", "the client context is the base64-decoded header value", strings.Join(got["ClientContext"], ",") == "call:encoding/base64.Encoding.DecodeString#0", fpos(f), 1, "ClientContext origins: %v", got["ClientContext"])
	hdr := false
	for _, call := range an.CallsTo(f, "encoding/base64.Encoding.DecodeString") {
		a := call.Common().Args
		if cl, _ := an.CallOf(a[len(a)-1]); cl != nil && an.Callee(cl) == "net/http.Header.Get" {
			if s, k := an.ConstString(cl.Call.Args[1]); k && s == "X-Amz-Client-Context" {
				hdr = true
			}
		}
	}
	c.Check("R-CONST", an.FuncName(f)+"/client-context-header", "the client context comes from the X-Amz-Client-Context header", hdr, fpos(f), 1, "decoded from that header: %v", hdr)
	checkFrontEndReadsBody(c)
	// success path: last Write is the proxy body
	n, okB := 0, true
	an.AllInstrs(f, func(in ssa.Instruction) {
		call, ok := in.(ssa.CallInstruction)
		if !ok || an.Callee(call) != "net/http.ResponseWriter.Write" {
			return
		}
		a := an.Strip(call.Common().Args[0], true)
		if fr, k := an.AsField(a); k && fr.Struct == "M/cmd/aws-lambda-rie.ResponseWriterProxy" && fr.Field == "Body" {
			n++
		} else if cl, _ := an.CallOf(a); cl != nil && an.Callee(cl) == "fmt.Sprintf" {
			// the timeout message
		} else {
			okB = false
		}
	})
	checkOneBodyPerRequest(c)
	c.Check("R-WIRE", an.FuncName(f)+"/returns-proxy-body", "what the caller receives is the body captured from the platform (or the platform's timeout message), nothing else", okB && n >= 2, fpos(f), n, "%d writes of the proxy body; other writes: %v", n, !okB)
	// the proxy keeps exactly what was written
	if pw := fn(c, "M/cmd/aws-lambda-rie", "(*ResponseWriterProxy).Write"); pw != nil {
		ok := false
		for _, st := range an.Stores(pw, "M/cmd/aws-lambda-rie.ResponseWriterProxy", "Body") {
			_, ok = st.Val.(*ssa.Parameter)
		}
		c.Check("R-WIRE", an.FuncName(pw)+"/keeps-bytes", "the response proxy stores the written bytes unchanged", ok, pw.Pos(), 1, "Body <- parameter: %v", ok)
	}
}

func checkIDAndDeadline(c *report.Ctx) {
	w := newWire(c, nil, nil)
	if rs := fn(c, rapidcP, "(*Server).Reserve"); rs != nil {
		ok := false
		for _, call := range an.CallsTo(rs, srvT+".setNewInvokeContext") {
			or := w.Origins(call.Common().Args[1])
			ok = len(or) >= 1
			for _, o := range or {
				if o != "call:github.com/google/uuid.UUID.String#0" && !strings.HasPrefix(o, "const:\"\"") && !strings.HasPrefix(o, "param:") && !strings.HasPrefix(o, "const:") {
					ok = false
				}
			}
			hasUUID := false
			for _, o := range or {
				if o == "call:github.com/google/uuid.UUID.String#0" {
					hasUUID = true
				}
			}
			ok = ok && hasUUID
			c.Check("R-WIRE", an.FuncName(rs)+"/fresh-id", "a reservation without a caller-supplied id gets a freshly generated uuid", ok, an.InstrPos(call), len(or), "id origins: %v", or)
		}
	}
	if g := fn(c, rapidcP, "(*Server).Invoke$2"); g != nil {
		for _, call := range an.CallsTo(g, srvT+".Reserve") {
			s, k := an.ConstString(call.Common().Args[1])
			c.Check("R-CONST", an.FuncName(g)+"/reserve-without-id", "the emulator path never supplies an id, so every invocation gets a fresh one", k && s == "", an.InstrPos(call), 1, "id argument constant empty: %v", k && s == "")
		}
		// deadline
		ok := false
		for _, st := range an.Stores(g, "L/interop.Invoke", "DeadlineNs") {
			cl, _ := an.CallOf(an.Strip(st.Val, false))
			if cl == nil || an.Callee(cl) != "fmt.Sprintf" {
				continue
			}
			// find the ADD in the varargs
			an.AllInstrs(g, func(in ssa.Instruction) {
				bo, k := in.(*ssa.BinOp)
				if !k || bo.Op != token.ADD {
					return
				}
				mono := an.IsResultOf(bo.X, "L/metering.Monotime", -1) || an.IsResultOf(bo.Y, "L/metering.Monotime", -1)
				var d *ssa.Call
				if x, _ := an.CallOf(bo.Y); x != nil && an.Callee(x) == "time.Duration.Nanoseconds" {
					d = x
				} else if x, _ := an.CallOf(bo.X); x != nil && an.Callee(x) == "time.Duration.Nanoseconds" {
					d = x
				}
				if mono && d != nil {
					if fr, k := an.AsField(an.Strip(d.Call.Args[0], false)); k && fr.Struct == "L/interop.Token" && fr.Field == "FunctionTimeout" {
						ok = true
					}
				}
			})
		}
		c.Check("R-WIRE", an.FuncName(g)+"/deadline", "the invocation's deadline is arrival time (monotonic now) plus the reserved token's function timeout", ok, fpos(g), 1, "DeadlineNs = Sprintf(Monotime() + Token.FunctionTimeout.Nanoseconds()): %v", ok)
	}
	if f := fn(c, rapidcP, "(*Server).setNewInvokeContext"); f != nil {
		got := map[string][]string{}
		for _, st := range an.Stores(f, "L/interop.Token", "") {
			fr, _ := an.AsField(st.Addr)
			got[fr.Field] = w.Origins(st.Val)
		}
		okID := len(got["InvokeID"]) == 1 && strings.HasPrefix(got["InvokeID"][0], "call:") || strings.Join(got["InvokeID"], ",") != "" && !strings.Contains(strings.Join(got["InvokeID"], ","), "field:")
		c.Check("R-WIRE", an.FuncName(f)+"/token", "the token records the reserved id and the configured function timeout", okID && strings.Join(got["FunctionTimeout"], ",") == "field:"+srvT+".invokeTimeout", fpos(f), len(got), "InvokeID origins: %v; FunctionTimeout origins: %v", got["InvokeID"], got["FunctionTimeout"])
	}
	if f := fn(c, rapidcP, "(*Server).FastInvoke"); f != nil {
		ok := false
		var or []string
		for _, st := range an.Stores(f, "L/interop.Invoke", "ID") {
			or = w.Origins(st.Val)
			ok = len(or) == 1 && or[0] == "call:"+srvT+".setReplyStream#0"
		}
		c.Check("R-WIRE", an.FuncName(f)+"/id-is-reserved-id", "the invocation dispatched to the runtime carries the id of the reservation the reply stream was attached to", ok, fpos(f), 1, "Invoke.ID origins: %v", or)
	}
	if f := fn(c, rapidcP, "(*Server).setReplyStream"); f != nil {
		ok := false
		for _, e := range an.ExitTuples(f) {
			if len(e.Vals) == 2 && an.IsNil(e.Vals[1]) {
				fr, k := an.AsField(an.Strip(e.Vals[0], false))
				ok = k && fr.Struct == "L/interop.Token" && fr.Field == "InvokeID"
			}
		}
		c.Check("R-WIRE", an.FuncName(f)+"/returns-reserved-id", "attaching the reply stream yields the reserved invocation's id", ok, fpos(f), 1, "returns Token.InvokeID: %v", ok)
	}
	if f := fn(c, rapidcP, "(*Server).Init"); f != nil {
		ok := false
		for _, call := range an.CallsTo(f, srvT+".SetInvokeTimeout") {
			if bo, k := call.Common().Args[1].(*ssa.BinOp); k && bo.Op == token.MUL {
				n, isC := an.ConstInt(bo.Y)
				_, isP := an.Strip(bo.X, true).(*ssa.Parameter)
				ok = isC && n == 1000000 && isP
			}
		}
		c.Check("R-WIRE", an.FuncName(f)+"/timeout", "the function timeout used for deadlines is Init's invokeTimeoutMs in milliseconds", ok, fpos(f), 1, "SetInvokeTimeout(Duration(invokeTimeoutMs) * Millisecond): %v", ok)
	}
	if f := c.P.Func(rapidcP, "(*Server).SetInvokeTimeout"); f != nil {
		ok := false
		for _, st := range an.Stores(f, srvT, "invokeTimeout") {
			_, ok = st.Val.(*ssa.Parameter)
		}
		c.Check("R-WIRE", an.FuncName(f)+"/stores", "SetInvokeTimeout stores its argument", ok, f.Pos(), 1, "%v", ok)
	}
}

// isAllocOf reports whether a allocates a value of exactly the named struct type T (not a pointer cell).
func isAllocOf(a *ssa.Alloc, T string) bool {
	p, ok := a.Type().Underlying().(*types.Pointer)
	if !ok {
		return false
	}
	if _, isPtr := p.Elem().Underlying().(*types.Pointer); isPtr {
		return false
	}
	return an.TypeName(p.Elem()) == T
}

// checkFrontEndReadsBody: the front end reads the request body itself, whole (no limiting or failing reader in
// between: an event above the limit is cut by the renderer, not refused by the front end).
func checkFrontEndReadsBody(c *report.Ctx) {
	f := fn(c, "M/cmd/aws-lambda-rie", "InvokeHandler")
	if f == nil {
		return
	}
	bodyOK := false
	for _, call := range an.CallsTo(f, "io/ioutil.ReadAll", "io.ReadAll") {
		if fr, k := an.AsField(an.Strip(call.Common().Args[0], false)); k && fr.Field == "Body" {
			bodyOK = true
		}
	}
	c.Check("R-WIRE", an.FuncName(f)+"/reads-request-body", "the body read is the HTTP request's body", bodyOK, fpos(f), 1, "ReadAll(r.Body): %v", bodyOK)
}
