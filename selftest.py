#!/usr/bin/env python3
"""Checker self-test (validates the checker, not the repository).

usage: selftest.py <property id | all> [--only NAME]

For every registered mutant of the property -- /verif/selftest/<id>/*.diff (hand
written rule-instance breakers; files named neg-*.diff are behaviour-preserving
edits that must NOT fire) and /verif/seeded/<name>/patch.diff whose meta.json
lists the property under "caught_by" -- a scratch copy of the repository is made
under $TMPDIR (outside /repo and /verif), the patch is applied, `go build ./...`
must still succeed, and the property's check is run against the copy. A mutant
is "caught" when the check exits 1 with a VIOLATION line. The copy is removed
straight afterwards; a few variants at a time (VERIF_JOBS, default 6; each is its own process).
Writes evidence/.selftest-<id>.json; exit status 0 = all as expected.
"""
import json, os, shutil, subprocess, sys, tempfile, glob, time

HERE = os.path.dirname(os.path.abspath(__file__))
REPO = os.environ.get("VERIF_REPO", "/repo")
ENV = dict(os.environ, GOFLAGS="-mod=mod", GOPROXY="off", GOSUMDB="off", GOTOOLCHAIN="local")
ENV.pop("GOWORK", None)


def mutants(prop):
    out = []
    for p in sorted(glob.glob(os.path.join(HERE, "selftest", prop, "*.diff"))):
        name = os.path.basename(p)[:-5]
        out.append({"name": "selftest/%s/%s" % (prop, name), "patch": p, "expect": "silent" if name.startswith("neg-") else "caught"})
    for m in sorted(glob.glob(os.path.join(HERE, "seeded", "*", "meta.json"))):
        try:
            meta = json.load(open(m))
        except Exception:
            continue
        d = os.path.dirname(m)
        if prop in meta.get("caught_by", []):
            out.append({"name": "seeded/" + os.path.basename(d), "patch": os.path.join(d, "patch.diff"), "expect": "caught"})
    # behaviour-preserving edits (hand-written and agent-written refactors, each with its argument in the .md next
    # to it): no check may report them or become undecided on them
    for p in sorted(glob.glob(os.path.join(HERE, "selftest", "ALL", "neg-*.diff"))):
        out.append({"name": "selftest/ALL/" + os.path.basename(p)[:-5], "patch": p, "expect": "silent", "nobuild": True})
    # generated negatives: the current tree rewritten mechanically into the same program (every local renamed, every
    # condition negated, every call moved into a helper of its own, ...) by the tools of checker/cmd, see DESIGN 10.16
    for p in sorted(glob.glob(os.path.join(HERE, "selftest", "ALL", "neg-gen-*.gen"))):
        out.append({"name": "selftest/ALL/" + os.path.basename(p)[:-4], "gen": json.load(open(p)), "patch": p, "expect": "silent"})
    return out


def run_one(prop, mu):
    t0 = time.time()
    scratch = tempfile.mkdtemp(prefix="rie-selftest-")
    res = dict(mu)
    try:
        dst = os.path.join(scratch, "repo")
        shutil.copytree(REPO, dst, ignore=shutil.ignore_patterns(".git"))
        if mu.get("gen"):
            tool = os.path.join(HERE, "bin", mu["gen"]["tool"])
            if not os.path.exists(tool):
                res.update(status="skipped", why="generator %s not built (run setup.sh)" % mu["gen"]["tool"])
                return res
            ap = subprocess.run([tool, dst] + mu["gen"].get("args", []), env=ENV, capture_output=True, text=True)
        else:
            ap = subprocess.run(["git", "apply", "--whitespace=nowarn", mu["patch"]], cwd=dst, capture_output=True, text=True)
            if ap.returncode != 0:
                ap = subprocess.run(["patch", "-p1", "-s", "-i", mu["patch"]], cwd=dst, capture_output=True, text=True)
        if ap.returncode != 0:
            res.update(status="skipped", why="patch does not apply to the current tree: " + (ap.stderr or ap.stdout).strip()[:200])
            return res
        b = subprocess.run(["true"] if mu.get("nobuild") else ["go", "build", "./..."], cwd=dst, env=ENV, capture_output=True, text=True)
        if b.returncode != 0:
            res.update(status="skipped", why="mutant does not compile: " + b.stderr.strip()[:200])
            return res
        r = subprocess.run([os.path.join(HERE, "bin", "riecheck"), "-property", prop, "-tier", "quick", "-repo", dst, "-verif", HERE, "-no-evidence"],
                           env=ENV, capture_output=True, text=True)
        viol = [l for l in r.stdout.splitlines() if l.startswith("VIOLATION property=%s " % prop)]
        keys = [l.strip()[len("violated "):] for l in r.stdout.splitlines() if l.strip().startswith("violated ")]
        got = "caught" if (r.returncode == 1 and viol) else ("silent" if r.returncode == 0 else "undecided(rc=%d)" % r.returncode)
        res.update(status="ok" if got == mu["expect"] else "UNEXPECTED", got=got, violated=keys[:8], rc=r.returncode)
        if got.startswith("undecided"):
            res["output"] = r.stdout[-600:]
        return res
    finally:
        shutil.rmtree(scratch, ignore_errors=True)
        res["secs"] = round(time.time() - t0, 1)


def main():
    args = [a for a in sys.argv[1:] if not a.startswith("--")]
    only = None
    if "--only" in sys.argv:
        only = sys.argv[sys.argv.index("--only") + 1]
        args = [a for a in args if a != only]
    props = args or ["all"]
    if props == ["all"]:
        props = sorted({os.path.basename(os.path.dirname(p)) for p in glob.glob(os.path.join(HERE, "selftest", "C*", "*.diff"))} |
                       {c for m in glob.glob(os.path.join(HERE, "seeded", "*", "meta.json")) for c in json.load(open(m)).get("caught_by", [])})
    if not os.path.exists(os.path.join(HERE, "bin", "riecheck")):
        subprocess.check_call([os.path.join(HERE, "setup.sh")])
    bad = 0
    for prop in props:
        results = []
        todo = [mu for mu in mutants(prop) if not (only and only not in mu["name"])]
        import concurrent.futures as cf
        with cf.ThreadPoolExecutor(max_workers=int(os.environ.get("VERIF_JOBS", "6"))) as ex:
            done = list(ex.map(lambda mu: run_one(prop, mu), todo))
        for r in done:
            results.append(r)
            print("%-10s %-55s expect=%-6s -> %s %s" % (prop, r["name"], r["expect"], r.get("got", r["status"]), r.get("why", "") or ",".join(r.get("violated", [])[:2])))
            if r["status"] == "UNEXPECTED":
                bad += 1
        summ = {"property": prop, "mutants": len(results), "as_expected": sum(1 for r in results if r["status"] == "ok"),
                "unexpected": sum(1 for r in results if r["status"] == "UNEXPECTED"), "skipped": sum(1 for r in results if r["status"] == "skipped"), "results": results}
        os.makedirs(os.path.join(HERE, "evidence"), exist_ok=True)
        json.dump(summ, open(os.path.join(HERE, "evidence", ".selftest-%s.json" % prop), "w"), indent=1)
        print("selftest %s: %d mutants, %d as expected, %d unexpected, %d skipped" % (prop, summ["mutants"], summ["as_expected"], summ["unexpected"], summ["skipped"]))
    sys.exit(1 if bad else 0)


if __name__ == "__main__":
    main()
