// mutgen lists small syntactic mutants of the non-test Go files under a repository root, as JSON lines
// {id,file,func,kind,line,start,end,repl}: a text edit replacing bytes [start,end) of file by repl.
// It is a discovery aid for the checker's own coverage (tools/mutsweep.py), not a check.
package main

import (
	"encoding/json"
	"fmt"
	"go/ast"
	"go/parser"
	"go/token"
	"os"
	"path/filepath"
	"sort"
	"strings"
)

type mut struct {
	ID    string `json:"id"`
	File  string `json:"file"`
	Func  string `json:"func"`
	Kind  string `json:"kind"`
	Line  int    `json:"line"`
	Start int    `json:"start"`
	End   int    `json:"end"`
	Repl  string `json:"repl"`
}

func main() {
	root := os.Args[1]
	var files []string
	for _, d := range []string{"lambda", "cmd"} {
		filepath.Walk(filepath.Join(root, d), func(p string, info os.FileInfo, err error) error {
			if err == nil && !info.IsDir() && strings.HasSuffix(p, ".go") && !strings.HasSuffix(p, "_test.go") && !strings.Contains(p, "/testdata/") {
				files = append(files, p)
			}
			return nil
		})
	}
	sort.Strings(files)
	enc := json.NewEncoder(os.Stdout)
	n := 0
	for _, p := range files {
		fset := token.NewFileSet()
		src, _ := os.ReadFile(p)
		f, err := parser.ParseFile(fset, p, src, 0)
		if err != nil {
			continue
		}
		rel, _ := filepath.Rel(root, p)
		off := func(pos token.Pos) int { return fset.Position(pos).Offset }
		emit := func(fn, kind string, pos, end token.Pos, repl string) {
			n++
			enc.Encode(mut{fmt.Sprintf("m%05d", n), rel, fn, kind, fset.Position(pos).Line, off(pos), off(end), repl})
		}
		for _, d := range f.Decls {
			fd, ok := d.(*ast.FuncDecl)
			if !ok || fd.Body == nil {
				continue
			}
			name := fd.Name.Name
			if fd.Recv != nil && len(fd.Recv.List) == 1 {
				t := fd.Recv.List[0].Type
				if st, ok := t.(*ast.StarExpr); ok {
					t = st.X
				}
				if id, ok := t.(*ast.Ident); ok {
					name = id.Name + "." + name
				}
			}
			isLog := func(c *ast.CallExpr) bool {
				s := string(src[off(c.Fun.Pos()):off(c.Fun.End())])
				return strings.HasPrefix(s, "log.") && !strings.Contains(s, "Panic") && !strings.Contains(s, "Fatal") || strings.Contains(s, ".Debug") || strings.Contains(s, ".Info") || strings.Contains(s, ".Warn") || strings.Contains(s, ".Error(") || strings.HasSuffix(s, ".Errorf") && strings.HasPrefix(s, "log")
			}
			ast.Inspect(fd.Body, func(nd ast.Node) bool {
				switch x := nd.(type) {
				case *ast.ExprStmt:
					if c, ok := x.X.(*ast.CallExpr); ok && !isLog(c) {
						emit(name, "drop-call", x.Pos(), x.End(), "")
					}
				case *ast.AssignStmt:
					if x.Tok == token.ASSIGN && len(x.Lhs) == 1 {
						if _, ok := x.Lhs[0].(*ast.SelectorExpr); ok {
							emit(name, "drop-field-store", x.Pos(), x.End(), "")
						}
					}
				case *ast.IfStmt:
					emit(name, "negate-if", x.Cond.Pos(), x.Cond.End(), "!("+string(src[off(x.Cond.Pos()):off(x.Cond.End())])+")")
				case *ast.BinaryExpr:
					swap := map[token.Token]string{token.LSS: "<=", token.LEQ: "<", token.GTR: ">=", token.GEQ: ">", token.LAND: "||", token.LOR: "&&"}
					if r, ok := swap[x.Op]; ok {
						emit(name, "swap-"+x.Op.String(), x.OpPos, x.OpPos+token.Pos(len(x.Op.String())), r)
					}
				case *ast.DeferStmt:
					emit(name, "undefer", x.Pos(), x.Call.Pos(), "")
				case *ast.GoStmt:
					// go f() -> f(): rarely compiles into something meaningful; skip
				case *ast.ReturnStmt:
					// return early variants are covered by negate-if
				}
				return true
			})
		}
	}
}
