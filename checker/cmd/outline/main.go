// outline rewrites, in place, the non-test Go files of a scratch copy of the repository so that every call
// statement `f(a, b)` / `x.M(a)` of a function moves into a helper of its own, `func F_oN(r X, p0 A, p1 B) { r.M(p0, p1) }`,
// called in its place with the same operands. The result is the same program written with many small helpers.
// It is a self-test aid for the checker (the analysis normal form must see through helper extraction), not a check.
// Second argument: take every k-th candidate only (default 1 = all). Third argument, the mode: "stmt" (default),
// "assign" (calls on the right of an assignment or in a return, value-returning helpers), "iife" (call statements
// wrapped in a function literal called on the spot), "delegate" (every function's body moves to F_impl and F
// becomes `return F_impl(args...)`).
package main

import (
	"fmt"
	"go/ast"
	"go/token"
	"go/types"
	"os"
	"sort"
	"strconv"
	"strings"

	"golang.org/x/tools/go/packages"
)

type edit struct {
	start, end int
	repl       string
}

func main() {
	root := os.Args[1]
	every := 1
	if len(os.Args) > 2 {
		every, _ = strconv.Atoi(os.Args[2])
	}
	mode := "stmt" // "assign": the calls on the right of `x, err := f(a)` / `x = f(a)` / `return f(a)` instead, helpers returning the results
	if len(os.Args) > 3 {
		mode = os.Args[3]
	}
	fset := token.NewFileSet()
	cfg := &packages.Config{Mode: packages.LoadSyntax, Dir: root, Fset: fset, Tests: false}
	pkgs, err := packages.Load(cfg, "./...")
	if err != nil {
		fmt.Fprintln(os.Stderr, err)
		os.Exit(2)
	}
	total, cand := 0, 0
	for _, p := range pkgs {
		if len(p.Errors) > 0 {
			fmt.Fprintln(os.Stderr, p.Errors)
			os.Exit(2)
		}
		for _, f := range p.Syntax {
			name := fset.Position(f.Pos()).Filename
			if strings.HasSuffix(name, "_test.go") || strings.Contains(name, "/testdata/") {
				continue
			}
			src, _ := os.ReadFile(name)
			off := func(pos token.Pos) int { return fset.Position(pos).Offset }
			text := func(nd ast.Node) string { return string(src[off(nd.Pos()):off(nd.End())]) }
			// local names of imported packages in this file
			imported := map[string]string{}
			for _, is := range f.Imports {
				path, _ := strconv.Unquote(is.Path.Value)
				if is.Name != nil {
					imported[path] = is.Name.Name
				} else if pn, ok := p.TypesInfo.Implicits[is].(*types.PkgName); ok {
					imported[path] = pn.Name()
				}
			}
			okType := true
			qual := func(q *types.Package) string {
				if q == p.Types {
					return ""
				}
				if n, ok := imported[q.Path()]; ok && n != "_" && n != "." {
					return n
				}
				okType = false
				return "?"
			}
			var nameable func(t types.Type) bool
			nameable = func(t types.Type) bool {
				switch x := t.(type) {
				case *types.Named:
					if x.Obj().Pkg() != nil && x.Obj().Pkg() != p.Types && !x.Obj().Exported() {
						return false
					}
					if x.Obj().Pkg() == p.Types && x.Obj().Parent() != p.Types.Scope() {
						return false // a type declared inside a function
					}
					return true
				case *types.Pointer:
					return nameable(x.Elem())
				case *types.Slice:
					return nameable(x.Elem())
				case *types.Array:
					return nameable(x.Elem())
				case *types.Map:
					return nameable(x.Key()) && nameable(x.Elem())
				case *types.Chan:
					return nameable(x.Elem())
				case *types.Basic:
					return x.Kind() != types.UntypedNil && x.Kind() != types.Invalid
				case *types.Interface:
					return x.NumMethods() == 0 || true
				case *types.Signature:
					for i := 0; i < x.Params().Len(); i++ {
						if !nameable(x.Params().At(i).Type()) {
							return false
						}
					}
					for i := 0; i < x.Results().Len(); i++ {
						if !nameable(x.Results().At(i).Type()) {
							return false
						}
					}
					return true
				case *types.Struct:
					return x.NumFields() == 0
				case *types.Tuple, *types.TypeParam:
					return false
				}
				return false
			}
			typeStr := func(t types.Type) (string, bool) {
				okType = true
				if !nameable(t) {
					return "", false
				}
				if b, isB := t.(*types.Basic); isB && b.Info()&types.IsUntyped != 0 {
					t = types.Default(t)
				}
				s := types.TypeString(t, qual)
				return s, okType
			}
			var edits []edit
			var helpers []string
			for _, dcl := range f.Decls {
				fd, ok := dcl.(*ast.FuncDecl)
				if !ok || fd.Body == nil {
					continue
				}
				if fd.Type.TypeParams != nil {
					continue
				}
				if mode == "delegate" {
					if fd.Name.Name == "init" || fd.Name.Name == "main" || fd.Name.Name == "_" {
						continue
					}
					var names []string
					good := true
					for _, fl := range fd.Type.Params.List {
						if len(fl.Names) == 0 {
							good = false
						}
						for j, nm := range fl.Names {
							if nm.Name == "_" {
								good = false
							}
							a := nm.Name
							if _, isVar := fl.Type.(*ast.Ellipsis); isVar && j == len(fl.Names)-1 {
								a += "..."
							}
							names = append(names, a)
						}
					}
					recv := ""
					if fd.Recv != nil {
						if len(fd.Recv.List) != 1 || len(fd.Recv.List[0].Names) != 1 || fd.Recv.List[0].Names[0].Name == "_" {
							good = false
						} else {
							recv = fd.Recv.List[0].Names[0].Name + "."
						}
					}
					if !good {
						continue
					}
					cand++
					if cand%every != 0 {
						continue
					}
					impl := fd.Name.Name + "_impl"
					ret := ""
					if fd.Type.Results != nil && len(fd.Type.Results.List) > 0 {
						ret = "return "
					}
					// header text up to the body, with the name replaced, followed by the old body
					hdr := string(src[off(fd.Pos()):off(fd.Name.Pos())]) + impl + string(src[off(fd.Name.End()):off(fd.Body.Pos())])
					helpers = append(helpers, hdr+text(fd.Body)+"\n")
					edits = append(edits, edit{off(fd.Body.Pos()), off(fd.Body.End()), "{\n\t" + ret + recv + impl + "(" + strings.Join(names, ", ") + ")\n}"})
					total++
					continue
				}
				base := fd.Name.Name
				if fd.Recv != nil && len(fd.Recv.List) == 1 {
					t := fd.Recv.List[0].Type
					if st, ok := t.(*ast.StarExpr); ok {
						t = st.X
					}
					if id, ok := t.(*ast.Ident); ok {
						base = id.Name + "_" + base
					}
				}
				k := 0
				ast.Inspect(fd.Body, func(nd ast.Node) bool {
					var call *ast.CallExpr
					var es ast.Node
					switch x := nd.(type) {
					case *ast.ExprStmt:
						if mode == "iife" {
							// the call statement wrapped in a function literal called on the spot
							if c, isCall := x.X.(*ast.CallExpr); isCall {
								if tv, has := p.TypesInfo.Types[c.Fun]; has && !tv.IsType() && !tv.IsBuiltin() {
									cand++
									if cand%every == 0 {
										edits = append(edits, edit{off(x.Pos()), off(x.End()), "func() { " + text(x) + " }()"})
										total++
									}
								}
							}
							return false
						}
						if mode != "stmt" {
							return true
						}
						call, _ = x.X.(*ast.CallExpr)
						es = x
					case *ast.AssignStmt:
						if mode != "assign" || len(x.Rhs) != 1 {
							return true
						}
						call, _ = x.Rhs[0].(*ast.CallExpr)
						es = call
					case *ast.ReturnStmt:
						if mode != "assign" || len(x.Results) != 1 {
							return true
						}
						call, _ = x.Results[0].(*ast.CallExpr)
						es = call
					default:
						return true
					}
					if call == nil {
						return true
					}
					if tv, has := p.TypesInfo.Types[call.Fun]; !has || tv.IsType() || tv.IsBuiltin() {
						return true
					}
					var params, argsAtSite, argsInHelper []string
					callee := ""
					switch fun := call.Fun.(type) {
					case *ast.Ident:
						if _, isFunc := p.TypesInfo.Uses[fun].(*types.Func); !isFunc {
							return true
						}
						callee = fun.Name
					case *ast.SelectorExpr:
						if id, isID := fun.X.(*ast.Ident); isID {
							if _, isPkg := p.TypesInfo.Uses[id].(*types.PkgName); isPkg {
								if _, isFunc := p.TypesInfo.Uses[fun.Sel].(*types.Func); !isFunc {
									return true
								}
								callee = text(fun)
								break
							}
						}
						sel := p.TypesInfo.Selections[fun]
						if sel == nil || sel.Kind() != types.MethodVal {
							return true
						}
						m, _ := sel.Obj().(*types.Func)
						if m == nil {
							return true
						}
						xt := p.TypesInfo.Types[fun.X].Type
						site := text(fun.X)
						recvT := m.Type().(*types.Signature).Recv().Type()
						_, wantPtr := recvT.(*types.Pointer)
						_, havePtr := xt.Underlying().(*types.Pointer)
						if _, isIface := xt.Underlying().(*types.Interface); !isIface && wantPtr && !havePtr {
							xt = types.NewPointer(xt)
							site = "&(" + site + ")"
						}
						ts, good := typeStr(xt)
						if !good {
							return true
						}
						params = append(params, "r_ "+ts)
						argsAtSite = append(argsAtSite, site)
						callee = "r_." + fun.Sel.Name
					default:
						return true
					}
					if len(call.Args) == 1 {
						if _, isTuple := p.TypesInfo.Types[call.Args[0]].Type.(*types.Tuple); isTuple {
							return true
						}
					}
					for i, a := range call.Args {
						tv, has := p.TypesInfo.Types[a]
						if !has {
							return true
						}
						ts, good := typeStr(tv.Type)
						if !good {
							return true
						}
						params = append(params, fmt.Sprintf("p%d_ %s", i, ts))
						argsAtSite = append(argsAtSite, text(a))
						h := fmt.Sprintf("p%d_", i)
						if i == len(call.Args)-1 && call.Ellipsis.IsValid() {
							h += "..."
						}
						argsInHelper = append(argsInHelper, h)
					}
					results, ret := "", ""
					if mode == "assign" {
						var rs []string
						switch rt := p.TypesInfo.Types[call].Type.(type) {
						case *types.Tuple:
							for i := 0; i < rt.Len(); i++ {
								ts, good := typeStr(rt.At(i).Type())
								if !good {
									return true
								}
								rs = append(rs, ts)
							}
						case nil:
							return true
						default:
							ts, good := typeStr(rt)
							if !good {
								return true
							}
							rs = append(rs, ts)
						}
						if len(rs) == 0 {
							return true
						}
						results, ret = " ("+strings.Join(rs, ", ")+")", "return "
					}
					cand++
					if cand%every != 0 {
						return true
					}
					k++
					hn := fmt.Sprintf("%s_o%d", base, k)
					helpers = append(helpers, fmt.Sprintf("func %s(%s)%s {\n\t%s%s(%s)\n}\n", hn, strings.Join(params, ", "), results, ret, callee, strings.Join(argsInHelper, ", ")))
					edits = append(edits, edit{off(es.Pos()), off(es.End()), hn + "(" + strings.Join(argsAtSite, ", ") + ")"})
					total++
					return false // do not outline calls nested in this one's arguments
				})
			}
			if len(edits) == 0 {
				continue
			}
			sort.Slice(edits, func(i, j int) bool { return edits[i].start > edits[j].start })
			out := src
			for _, e := range edits {
				out = append(append(append([]byte(nil), out[:e.start]...), e.repl...), out[e.end:]...)
			}
			if len(helpers) > 0 {
				out = append(out, []byte("\n"+strings.Join(helpers, "\n"))...)
			}
			if err := os.WriteFile(name, out, 0o644); err != nil {
				panic(err)
			}
		}
	}
	fmt.Printf("moved %d call statements into helpers of their own\n", total)
}
