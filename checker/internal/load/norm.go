package load

import (
	_ "embed"
	"fmt"
	"sort"
	"strings"

	"golang.org/x/tools/go/callgraph/cha"
	"golang.org/x/tools/go/ssa"
	"golang.org/x/tools/go/ssa/ssautil"
)

// baselineFuncs is the table of top-level functions and methods of the
// repository the rule tables were written against (one ssa name per line;
// regenerate with `riecheck -write-baseline` after a deliberate re-pin). It is
// used for one thing only: a function that is NOT in it is "glue" - a helper
// introduced later - and is absorbed into its callers before any rule runs
// (see vendor/golang.org/x/tools/go/ssa/verifnorm.go). The transformation
// preserves the program's meaning whatever the table says, so a stale table
// can cost precision (an anchor not found) but never soundness.
//
//go:embed baseline_funcs.txt
var baselineFuncs string

// transparent lists baseline helpers that the rules deliberately look through: they are absorbed into
// their callers like glue, so that a tree that calls the helper and a tree in which a maintainer has
// inlined it by hand present the same shape to the rules (which are phrased on the callers).
var transparent = map[string]bool{
	"(*go.amzn.com/lambda/core.InternalAgent).subscribeUnsafe": true,
	"(*go.amzn.com/lambda/core.ExternalAgent).subscribeUnsafe": true,
	"(*go.amzn.com/lambda/rapidcore/env.Environment).mergeCustomerEnvironmentVariables": true,
}

var baselineSet = func() map[string]bool {
	m := map[string]bool{}
	for _, l := range strings.Split(baselineFuncs, "\n") {
		if l = strings.TrimSpace(l); l != "" && !strings.HasPrefix(l, "#") {
			m[l] = true
		}
	}
	return m
}()

// TopLevelSourceFuncs lists the top-level source functions of the repository (non-test files).
func TopLevelSourceFuncs(prog *ssa.Program) []*ssa.Function {
	var out []*ssa.Function
	for fn := range ssautil.AllFunctions(prog) {
		if fn.Pkg == nil || fn.Pkg.Pkg == nil || !strings.HasPrefix(fn.Pkg.Pkg.Path(), ModulePath) {
			continue
		}
		if fn.Parent() != nil || fn.Synthetic != "" || fn.Syntax() == nil || len(fn.Blocks) == 0 {
			continue
		}
		if strings.HasSuffix(prog.Fset.Position(fn.Pos()).Filename, "_test.go") {
			continue
		}
		out = append(out, fn)
	}
	sort.Slice(out, func(i, j int) bool { return out[i].String() < out[j].String() })
	return out
}

// normalise brings the program into the analysis normal form, in place.
func normalise(prog *ssa.Program) (map[*ssa.Function]bool, *ssa.VerifNorm, []string, error) {
	fns := TopLevelSourceFuncs(prog)
	glue := map[*ssa.Function]bool{}
	for _, fn := range fns {
		if (!baselineSet[fn.String()] || transparent[fn.String()]) && fn.Name() != "init" && !strings.HasPrefix(fn.Name(), "init#") && fn.Name() != "main" {
			glue[fn] = true
		}
	}
	norm := &ssa.VerifNorm{}
	if len(glue) == 0 || len(baselineSet) == 0 {
		norm.Glue = func(*ssa.Function) bool { return false }
		return map[*ssa.Function]bool{}, norm, nil, nil
	}
	// A glue function can be absorbed when every use of it is a static call (plain, go or defer):
	// no dynamic dispatch can reach it and its value is never taken.
	cg := cha.CallGraph(prog)
	absorbable := map[*ssa.Function]bool{}
	why := map[*ssa.Function]string{}
	for fn := range glue {
		ok := true
		n := cg.Nodes[fn]
		ncall := 0
		if n != nil {
			for _, e := range n.In {
				if e.Site == nil || e.Site.Common().StaticCallee() != fn {
					ok = false
					why[fn] = "called dynamically (CHA) from " + e.Caller.Func.String()
					break
				}
				if _, isFn := e.Site.Common().Value.(*ssa.Function); !isFn {
					ok = false
					why[fn] = "called through a closure value"
					break
				}
				ncall++
			}
		}
		if ok && ncall == 0 {
			ok = false
			why[fn] = "has no callers"
		}
		absorbable[fn] = ok
	}
	// its value must not be taken anywhere (method values, handler registration, ...)
	var rands []*ssa.Value
	for fn := range ssautil.AllFunctions(prog) {
		for _, b := range fn.Blocks {
			for _, in := range b.Instrs {
				rands = in.Operands(rands[:0])
				for _, r := range rands {
					g, ok := (*r).(*ssa.Function)
					if !ok || !absorbable[g] {
						continue
					}
					if ci, isCall := in.(ssa.CallInstruction); isCall && ci.Common().Value == ssa.Value(g) {
						continue
					}
					absorbable[g] = false
					why[g] = "its value is taken in " + fn.String()
				}
			}
		}
	}
	norm.Glue = func(callee *ssa.Function) bool { return absorbable[callee] }
	for _, fn := range fns {
		if absorbable[fn] {
			continue // only ever seen through its callers
		}
		norm.Function(fn)
	}
	if len(norm.Failures) > 0 {
		return nil, nil, nil, fmt.Errorf("analysis normal form could not be established:\n  %s", strings.Join(norm.Failures, "\n  "))
	}
	absorbed := map[*ssa.Function]bool{}
	var notes []string
	for fn := range glue {
		switch {
		case absorbable[fn]:
			absorbed[fn] = true
			notes = append(notes, fn.String()+": absorbed into its callers")
		default:
			notes = append(notes, fn.String()+": kept as a function ("+why[fn]+")")
		}
	}
	sort.Strings(notes)
	return absorbed, norm, notes, nil
}
