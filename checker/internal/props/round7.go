package props

// Rules added from the mutation sweep (DESIGN 10.14): conditions that the blind rounds had not reached and that
// the repository's own tests do not notice either.

import (
	"go/token"
	"sort"
	"strings"

	"golang.org/x/tools/go/ssa"

	"verif/checker/internal/an"
	"verif/checker/internal/report"
)

func init() {
	add := func(id string, fs ...func(*report.Ctx)) { round5Rules[id] = append(round5Rules[id], fs...) }
	add("C05", checkFailureFlags)
	add("C06", checkFallbackFaultOnlyWithoutCached, checkSweepGuards, checkFailureFlags, checkExitClassification, checkInitErrorCachedOrForwarded, checkInitFailuresHandled)
	add("C07", checkDefaultInteropServer, checkSweepMustPass, checkPanicGuards, checkRuntimeAPIServed, checkInitFailuresHandled, checkBuilderSettersStore)
	add("C15", checkExitClassification, checkFallbackFaultOnlyWithoutCached)
	add("C12", checkRuntimeAPIServed)
	add("C09", checkBuilderSettersStore, checkSweepGuards, checkSweepMustPass)
	add("C01", checkSweepGuards, checkSweepMustPass)
	add("C03", checkSweepGuards)
	add("C08", checkSweepMustPass)
	add("C10", checkSweepGuards, checkSweepMustPass)
	add("C16", checkSweepGuards)
	add("C13", checkExtensionsFlagSemantics)
	add("C03", checkExtensionsFlagSemantics)
	add("C18", checkCredentialsRoute)
	add("C19", checkTerminateGroup)
	add("C09", checkTerminateGroup)
}

// storeUnder lists, for the constant stores to field of structName in f, the facts of their blocks.
type flagStore struct {
	st    *ssa.Store
	val   bool
	facts []an.Fact
}

func flagStores(f *ssa.Function, structName, field string) []flagStore {
	facts := an.NewFacts(f)
	var out []flagStore
	for _, st := range an.Stores(f, structName, field) {
		if b, ok := an.ConstBool(st.Val); ok {
			out = append(out, flagStore{st, b, facts.At(st.Block())})
		}
	}
	return out
}

func anyFact(fs []an.Fact, pred func(an.Fact) bool) bool {
	for _, f := range fs {
		if pred(f) {
			return true
		}
	}
	return false
}

// checkFailureFlags: a failed invocation or init asks for a reset exactly when the documented conditions hold, and
// says "a reset is already under way" exactly when it was interrupted by one.
func checkFailureFlags(c *report.Ctx) {
	isResetErr := func(want bool) func(an.Fact) bool {
		return func(ft an.Fact) bool {
			return an.CmpEq(ft, want, func(v ssa.Value) bool { _, isP := v.(*ssa.Parameter); return isP }, func(v ssa.Value) bool { return an.GlobalOf(v) == "L/rapid.errResetReceived" })
		}
	}
	callIs := func(callee string, want bool) func(an.Fact) bool {
		return func(ft an.Fact) bool {
			cl, _ := an.CallOf(ft.Cond)
			return cl != nil && strings.HasSuffix(an.Callee(cl), callee) && ft.Val == want
		}
	}
	if f := fn(c, "L/rapid", "handleInvokeError"); f != nil {
		T := "L/interop.InvokeFailure"
		var bad []string
		n := 0
		for _, s := range flagStores(f, T, "RequestReset") {
			n++
			switch s.val {
			case false:
				if !anyFact(s.facts, callIs("extensions.AreEnabled", false)) {
					bad = append(bad, "RequestReset=false not under !extensions.AreEnabled()")
				}
			case true:
				if !anyFact(s.facts, callIs("extensions.AreEnabled", true)) || !anyFact(s.facts, isResetErr(false)) {
					bad = append(bad, "RequestReset=true not under extensions enabled and err != errResetReceived")
				}
			}
		}
		for _, s := range flagStores(f, T, "ResetReceived") {
			n++
			if !s.val || !anyFact(s.facts, isResetErr(true)) {
				bad = append(bad, "ResetReceived not set under err == errResetReceived")
			}
		}
		c.Check("R-GUARD", an.FuncName(f)+"/reset-flags", "a failed invocation requests a reset when extensions are enabled and it was not itself interrupted by a reset; it reports 'reset received' exactly for errResetReceived; with extensions disabled it requests none", len(bad) == 0 && n == 3, fpos(f), n, "flag stores: %d; %v", n, bad)
	}
	if f := fn(c, "L/rapid", "handleInitError"); f != nil {
		T := "L/interop.InitFailure"
		var bad []string
		n := 0
		noExt := callIs("rapidContext.HasActiveExtensions", false)
		notStandalone := func(ft an.Fact) bool {
			return !ft.Val && an.IsFieldLoad(ft.Cond, rapidCtxT, "standaloneMode")
		}
		// the same decision written as one expression: RequestReset = HasActiveExtensions() || standaloneMode
		for _, st := range an.Stores(f, T, "RequestReset") {
			if _, isC := an.ConstBool(st.Val); isC {
				continue
			}
			hasExt, hasStd, other := false, false, false
			for _, leaf := range an.PhiLeaves(st.Val) {
				switch {
				case an.IsFieldLoad(leaf, rapidCtxT, "standaloneMode"):
					hasStd = true
				case an.IsResultOf(leaf, "L/rapid.rapidContext.HasActiveExtensions", -1):
					hasExt = true
				default:
					if b, isC := an.ConstBool(leaf); isC && b {
						hasExt = hasExt || len(an.CallsTo(f, "L/rapid.rapidContext.HasActiveExtensions")) == 1
					} else {
						other = true
					}
				}
			}
			if hasExt && hasStd && !other {
				n += 2
			} else {
				bad = append(bad, "RequestReset computed from something else than HasActiveExtensions() || standaloneMode")
			}
		}
		for _, s := range flagStores(f, T, "RequestReset") {
			n++
			both := anyFact(s.facts, noExt) && anyFact(s.facts, notStandalone)
			if s.val == both {
				bad = append(bad, sprintf("RequestReset=%v under (no extensions and not standalone)=%v", s.val, both))
			}
			if anyFact(s.facts, isResetErr(true)) {
				bad = append(bad, "RequestReset set on the reset-received path")
			}
		}
		for _, s := range flagStores(f, T, "ResetReceived") {
			n++
			if !s.val || !anyFact(s.facts, isResetErr(true)) {
				bad = append(bad, "ResetReceived not set under err == errResetReceived")
			}
		}
		// the failure is handed over, and its acknowledgement awaited, on every path
		nsend, okSend, _ := beforeEveryReturn(f, func(in ssa.Instruction) bool { _, isS := in.(*ssa.Send); return isS })
		c.Check("R-GUARD", an.FuncName(f)+"/reset-flags", "a failed init requests a reset unless there are no extensions and the emulator is not standalone; it reports 'reset received' exactly for errResetReceived; the failure is handed over on every path", len(bad) == 0 && n == 3 && okSend && nsend >= 1, fpos(f), n, "flag stores: %d; hand-over on every path: %v; %v", n, okSend, bad)
	}
}

// constRecording is one constant a call records through argument idx, with the facts known whenever it is that
// constant which is recorded. A call whose argument is written out has one; a call that is handed a joined value
// (`kind := A; if c { kind = B }; record(kind)`, or the result of a helper that classifies and returns the kind)
// has one per incoming edge of the join.
type constRecording struct {
	call  ssa.CallInstruction
	kind  string
	facts []an.Fact
}

// constRecordings lists what the calls of callee in f record through argument idx; values that are not string
// constants are left out (the rules count what they get). distinct is the number of different (call, constant)
// pairs: two for `if c { record(A) } else { record(B) }` and for `record(φ[A, B])` alike.
func constRecordings(f *ssa.Function, facts *an.Facts, callee string, idx int) (recs []constRecording, distinct int) {
	type key struct {
		call ssa.CallInstruction
		kind string
	}
	seen := map[key]bool{}
	for _, call := range an.CallsTo(f, callee) {
		if idx >= len(call.Common().Args) {
			continue
		}
		for _, jc := range facts.JoinCases(call.Common().Args[idx], call.Block()) {
			s, ok := an.ConstString(jc.Val)
			if !ok {
				continue
			}
			recs = append(recs, constRecording{call, s, jc.Facts})
			if !seen[key{call, s}] {
				seen[key{call, s}] = true
				distinct++
			}
		}
	}
	return recs, distinct
}

// recordingCount counts the recordings of constRecordings the way the calls were counted before joins were read
// per edge: a call counts once per different constant it can record, and once if it records no constant at all.
func recordingCount(f *ssa.Function, facts *an.Facts, callee string, idx int) int {
	recs, n := constRecordings(f, facts, callee, idx)
	has := map[ssa.CallInstruction]bool{}
	for _, r := range recs {
		has[r.call] = true
	}
	for _, call := range an.CallsTo(f, callee) {
		if !has[call] {
			n++
		}
	}
	return n
}

// checkExitClassification: an unexpected exit is recorded as Runtime.ExitError when the process is this
// generation's runtime and as Extension.Crash otherwise, and only when no shutdown is in progress.
func checkExitClassification(c *report.Ctx) {
	f := fn(c, "L/rapid", "(*rapidContext).watchEvents")
	if f == nil {
		return
	}
	facts := an.NewFacts(f)
	isRuntimeName := func(want bool) func(an.Fact) bool {
		return func(ft an.Fact) bool {
			bo, ok := ft.Cond.(*ssa.BinOp)
			if !ok || (bo.Op != token.EQL && bo.Op != token.NEQ) {
				return false
			}
			isSprintf := func(v ssa.Value) bool { cl, _ := an.CallOf(v); return cl != nil && an.Callee(cl) == "fmt.Sprintf" }
			if !isSprintf(bo.X) && !isSprintf(bo.Y) {
				return false
			}
			eq := (bo.Op == token.EQL) == ft.Val
			return eq == want
		}
	}
	notShutting := func(ft an.Fact) bool {
		cl, _ := an.CallOf(ft.Cond)
		return cl != nil && strings.HasSuffix(an.Callee(cl), "shutdownContext.isShuttingDown") && !ft.Val
	}
	want := map[string]bool{"Runtime.ExitError": true, "Extension.Crash": false}
	var bad []string
	pos := fpos(f)
	// (read per incoming edge where the kind is a joined value: the classification may be computed first and
	// recorded by one call)
	recs, n := constRecordings(f, facts, "L/appctx.StoreFirstFatalError", 1)
	seenBad := map[string]bool{}
	for _, r := range recs {
		s := r.kind
		isRt, known := want[s]
		msg := ""
		if !known {
			msg = "records " + s
		} else if !anyFact(r.facts, isRuntimeName(isRt)) || !anyFact(r.facts, notShutting) {
			msg = s + " not under (process is the runtime)=" + sprintf("%v", isRt) + " and !isShuttingDown()"
			pos = an.InstrPos(r.call)
		}
		if msg != "" && !seenBad[msg] {
			seenBad[msg] = true
			bad = append(bad, msg)
		}
	}
	sort.Strings(bad)
	c.Check("R-GUARD", an.FuncName(f)+"/exit-classification", "an unexpected exit is recorded as Runtime.ExitError exactly when the exited process is this generation's runtime, as Extension.Crash otherwise, and never while a shutdown is in progress", len(bad) == 0 && n == 2, pos, n, "recordings: %d; %v", n, bad)
}

// checkRuntimeAPIServed: the Runtime API server is served once it listens.
func checkRuntimeAPIServed(c *report.Ctx) {
	f := fn(c, "L/rapid", "startRuntimeAPI")
	if f == nil {
		return
	}
	n, ok, where := beforeEveryReturn(f, isPlainCallTo("L/rapi.Server.Serve"))
	listen := an.CallsTo(f, "L/rapi.Server.Listen")
	if ok && len(listen) == 1 {
		for _, s := range an.CallsTo(f, "L/rapi.Server.Serve") {
			if !an.InstrDominates(listen[0], s) {
				ok = false
			}
		}
	}
	if where == token.NoPos {
		where = fpos(f)
	}
	c.Check("R-ORDER", an.FuncName(f)+"/listens-then-serves", "the Runtime API server is bound and then served on every path (without Serve no runtime or extension is ever answered)", ok && len(listen) == 1, where, n, "Listen calls: %d; Serve calls: %d, after Listen on every path: %v", len(listen), n, ok)
}

// checkInitErrorCachedOrForwarded: an init error reported by the runtime is forwarded to the waiting caller during
// a suppressed init and cached for the next invocation otherwise.
func checkInitErrorCachedOrForwarded(c *report.Ctx) {
	f := fn(c, rapidcP, "(*Server).SendInitErrorResponse")
	if f == nil {
		return
	}
	facts := an.NewFacts(f)
	invoking := func(want bool) func(an.Fact) bool {
		return func(ft an.Fact) bool {
			bo, ok := ft.Cond.(*ssa.BinOp)
			if !ok || (bo.Op != token.EQL && bo.Op != token.NEQ) {
				return false
			}
			isPhase := func(v ssa.Value) bool {
				return an.IsResultOf(v, srvT+".getRapidPhase", -1) || an.IsFieldLoad(v, srvT, "rapidPhase")
			}
			if !isPhase(bo.X) && !isPhase(bo.Y) {
				return false
			}
			return ((bo.Op == token.EQL) == ft.Val) == want
		}
	}
	okF, okC := false, false
	for _, call := range an.CallsTo(f, srvT+".SendErrorResponse") {
		okF = facts.Holds(call.Block(), invoking(true))
	}
	cache := an.CallsTo(f, srvT+".setCachedInitErrorResponse")
	for _, call := range cache {
		_, isP := an.Strip(call.Common().Args[1], false).(*ssa.Parameter)
		okC = facts.Holds(call.Block(), invoking(false)) && isP
	}
	// every exit of the non-invoking path has cached
	for _, e := range an.Exits(f) {
		if facts.Holds(e.Ret.Block(), invoking(false)) {
			if len(cache) != 1 || !an.InstrDominates(cache[0], e.Ret) {
				okC = false
			}
		}
	}
	c.Check("R-GUARD", an.FuncName(f)+"/cached-or-forwarded", "the runtime's init error is forwarded as the invocation's error response while an invocation is in its suppressed init, and cached (the response itself) for the next invocation otherwise, on every path", okF && okC, fpos(f), 2, "forwarded under phase == invoking: %v; cached on every other path: %v", okF, okC)
}

// checkInitFailuresHandled: whichever step of handleInit fails, the failure is reported and init ends there.
func checkInitFailuresHandled(c *report.Ctx) {
	f := fn(c, "L/rapid", "handleInit")
	if f == nil {
		return
	}
	steps := []string{"L/rapid.rapidContext.acceptInitRequestForInitCaching", "L/rapid.setupEventsWatcher", "L/rapid.doRuntimeDomainInit"}
	isHandle := isPlainCallTo("L/rapid.handleInitError")
	isSuccess := func(in ssa.Instruction) bool {
		s, ok := in.(*ssa.Send)
		return ok && strings.HasSuffix(s.Chan.Type().String(), "interop.InitSuccess")
	}
	n := 0
	var bad []string
	pos := fpos(f)
	for _, g := range an.WithAnon(f) {
		for _, callee := range steps {
			for _, call := range an.CallsTo(g, callee) {
				// the error result and its test
				var errv ssa.Value
				if v := call.Value(); v != nil {
					if isErrorType(v.Type()) {
						errv = v
					} else {
						for _, r := range *v.Referrers() {
							if ex, ok := r.(*ssa.Extract); ok && isErrorType(ex.Type()) {
								errv = ex
							}
						}
					}
				}
				if errv == nil {
					continue
				}
				// the value itself, or the merge it flows into when the step sits in one arm of a branch
				vals := []ssa.Value{errv}
				for i := 0; i < len(vals) && i < 4; i++ {
					for _, r := range *vals[i].Referrers() {
						if ph, ok := r.(*ssa.Phi); ok {
							vals = append(vals, ph)
						}
					}
				}
				var tests []ssa.Instruction
				for _, v := range vals {
					tests = append(tests, *v.Referrers()...)
				}
				for _, r := range tests {
					bo, ok := r.(*ssa.BinOp)
					if !ok || (bo.Op != token.NEQ && bo.Op != token.EQL) || !an.IsNil(bo.X) && !an.IsNil(bo.Y) {
						continue
					}
					for _, r2 := range *bo.Referrers() {
						iff, ok := r2.(*ssa.If)
						if !ok {
							continue
						}
						n++
						errEdge := iff.Block().Succs[0]
						if bo.Op == token.EQL {
							errEdge = iff.Block().Succs[1]
						}
						// on the error edge: handleInitError before any return, and no success message
						if returnReachableAvoiding(errEdge, isHandle) {
							bad = append(bad, strings.TrimPrefix(callee, "L/rapid.")+": a return without handleInitError")
							pos = an.InstrPos(iff)
						}
						reachSuccess := false
						seen := map[*ssa.BasicBlock]bool{}
						var walk func(b *ssa.BasicBlock)
						walk = func(b *ssa.BasicBlock) {
							if seen[b] {
								return
							}
							seen[b] = true
							for _, in := range b.Instrs {
								if isSuccess(in) {
									reachSuccess = true
								}
							}
							for _, s := range b.Succs {
								walk(s)
							}
						}
						walk(errEdge)
						if reachSuccess {
							bad = append(bad, strings.TrimPrefix(callee, "L/rapid.")+": the success message is reachable after the failure")
							pos = an.InstrPos(iff)
						}
					}
				}
			}
		}
	}
	sort.Strings(bad)
	c.Check("R-ORDER", an.FuncName(f)+"/failures-reported", "when accepting the request, starting the events watcher or initialising the runtime domain fails, handleInit reports the failure and returns without announcing success", len(bad) == 0 && n >= 3, pos, n, "error tests of the three steps: %d; %v", n, bad)
}

// checkBuilderSettersStore: every setter of the sandbox builder stores what it is given.
func checkBuilderSettersStore(c *report.Ctx) {
	n := 0
	var bad []string
	pos := token.NoPos
	for _, f := range methodsOf(c, rapidcP, "SandboxBuilder") {
		if !strings.HasPrefix(f.Name(), "Set") || len(f.Params) < 2 || oneOf(f.Name(), "SetExtensionsFlag", "SetRuntimeAPIAddress") {
			continue
		}
		n++
		// every parameter is stored into a field (of the builder or its sandbox) on every path
		for _, p := range f.Params[1:] {
			p := p
			_, ok, _ := beforeEveryReturn(f, func(in ssa.Instruction) bool {
				st, isSt := in.(*ssa.Store)
				if !isSt || an.Strip(st.Val, false) != ssa.Value(p) {
					return false
				}
				_, isF := an.AsField(st.Addr)
				return isF
			})
			if !ok {
				bad = append(bad, f.Name()+"("+p.Name()+")")
				pos = fpos(f)
			}
		}
	}
	sort.Strings(bad)
	c.Check("R-WIRE", "L/rapidcore.SandboxBuilder/setters-store", "each Set... method of the sandbox builder stores its argument on every path (supervisor, interop server, handler, init-caching flag, ... reach the sandbox that Create builds)", len(bad) == 0 && n >= 8, pos, n, "setters: %d; not storing: %v", n, bad)
}

// checkPanicGuards: the tabled termination sites are taken only under the condition their justification names.
func checkPanicGuards(c *report.Ctx) {
	type site struct {
		pkg, fn, what string
		guard         func(f *ssa.Function) func(an.Fact) bool
	}
	okFlagOf := func(callee string, want bool) func(f *ssa.Function) func(an.Fact) bool {
		return func(f *ssa.Function) func(an.Fact) bool {
			return func(ft an.Fact) bool {
				ex, ok := ft.Cond.(*ssa.Extract)
				if !ok || ex.Index != 1 || ft.Val != want {
					return false
				}
				if callee == "" {
					_, isL := ex.Tuple.(*ssa.Lookup)
					return isL
				}
				cl, isC := ex.Tuple.(*ssa.Call)
				return isC && strings.HasSuffix(an.Callee(cl), callee)
			}
		}
	}
	sites := []site{
		{"L/rapid", "(*shutdownContext).handleProcessExit", "no exit channel was found for the process", okFlagOf("shutdownContext.getExitedChannel", false)},
		{"L/rapid", "(*shutdownContext).createExitedChannel", "a channel already exists under the name", okFlagOf("", true)},
		{"L/rapid", "(*rapidContext).watchEvents", "the event is an event-loss event", func(f *ssa.Function) func(an.Fact) bool {
			return func(ft an.Fact) bool {
				return an.CmpNil(ft, false, func(v ssa.Value) bool {
					cl, _ := an.CallOf(v)
					return cl != nil && strings.HasSuffix(an.Callee(cl), "EventData.EventLoss")
				})
			}
		}},
	}
	sites = append(sites, site{rapidcP, "(*Server).trySendDefaultErrorResponse", "sending the default error response failed", func(f *ssa.Function) func(an.Fact) bool {
		return func(ft an.Fact) bool { return an.CmpNil(ft, false, errResultOf("Server.SendErrorResponse")) }
	}})
	for _, s := range sites {
		f := fn(c, s.pkg, s.fn)
		if f == nil {
			continue
		}
		facts := an.NewFacts(f)
		n, ok := 0, true
		pos := fpos(f)
		for _, call := range an.Calls(f, func(cal string) bool { return strings.Contains(cal, "logrus.Panic") }) {
			n++
			if !facts.Holds(call.Block(), s.guard(f)) {
				ok = false
				pos = an.InstrPos(call)
			}
		}
		c.Check("R-GUARD", an.FuncName(f)+"/panic-guard", "the process-terminating site is reached only when "+s.what, ok && n == 1, pos, n, "panic sites: %d, under that condition: %v", n, ok)
	}
}

func errResultOf(callee string) func(ssa.Value) bool {
	return func(v ssa.Value) bool {
		cl, _ := an.CallOf(v)
		return cl != nil && strings.HasSuffix(an.Callee(cl), callee) && isErrorType(v.Type())
	}
}

// checkSweepGuards: guards of the main path that neither a blind round nor the repository's tests had pinned.
func checkSweepGuards(c *report.Ctx) {
	// HasActiveExtensions == extensions.AreEnabled() && CountAgents() > 0
	if f := fn(c, "L/rapid", "(*rapidContext).HasActiveExtensions"); f != nil {
		facts := an.NewFacts(f)
		cmp := false
		an.AllInstrs(f, func(in ssa.Instruction) {
			bo, ok := in.(*ssa.BinOp)
			if !ok || !an.IsResultOf(bo.X, regSvcI+"CountAgents", -1) {
				return
			}
			z, isC := an.ConstInt(bo.Y)
			if isC && (bo.Op == token.GTR && z == 0 || bo.Op == token.GEQ && z == 1 || bo.Op == token.NEQ && z == 0) {
				cmp = facts.Holds(bo.Block(), func(ft an.Fact) bool {
					cl, _ := an.CallOf(ft.Cond)
					return cl != nil && an.Callee(cl) == "L/extensions.AreEnabled" && ft.Val
				})
			}
		})
		falseElsewhere := true
		for _, e := range an.Exits(f) {
			for _, leaf := range an.PhiLeaves(e.Vals[0]) {
				if b, isC := an.ConstBool(leaf); isC && b {
					falseElsewhere = false
				}
			}
		}
		c.Check("R-GUARD", an.FuncName(f)+"/definition", "there are active extensions exactly when extensions are enabled and at least one is registered", cmp && falseElsewhere, fpos(f), 1, "CountAgents() > 0 evaluated under AreEnabled(): %v; no constant true: %v", cmp, falseElsewhere)
	}
	// extensions are launched exactly when extensions are enabled; the runtime domain is initialised by handleInit
	// exactly when the init is not suppressed; the sandbox's handler is applied exactly when one was given
	type guarded struct {
		pkg, fn, callee, key, what string
		pred                       func(an.Fact) bool
	}
	gs := []guarded{
		{"L/rapid", "doRuntimeDomainInit", "L/rapid.doInitExtensions", "extensions-launched-when-enabled", "external extensions are launched exactly on the path where extensions are enabled", func(ft an.Fact) bool {
			cl, _ := an.CallOf(ft.Cond)
			return cl != nil && an.Callee(cl) == "L/extensions.AreEnabled" && ft.Val
		}},
		{"L/rapid", "handleInit", "L/rapid.doRuntimeDomainInit", "init-unless-suppressed", "handleInit initialises the runtime domain exactly when the request does not suppress init", func(ft an.Fact) bool {
			return !ft.Val && an.IsFieldLoad(ft.Cond, "L/interop.Init", "SuppressInit")
		}},
		{rapidcP, "(SandboxContext).Init", envT + ".SetHandler", "handler-applied-when-given", "the sandbox's handler is applied exactly when one was given (an empty one must not replace the init request's)", func(ft an.Fact) bool {
			x, _, nonzero := an.LenSign(ft)
			return x != nil && nonzero
		}},
	}
	for _, g := range gs {
		f := fn(c, g.pkg, g.fn)
		if f == nil {
			continue
		}
		n, ok := 0, true
		pos := fpos(f)
		for _, h := range an.WithAnon(f) {
			facts := an.NewFacts(h)
			for _, call := range an.CallsTo(h, g.callee) {
				n++
				if !facts.Holds(call.Block(), g.pred) {
					ok = false
					pos = an.InstrPos(call)
				}
			}
		}
		c.Check("R-GUARD", an.FuncName(f)+"/"+g.key, g.what, ok && n == 1, pos, n, "call sites: %d, under the condition: %v", n, ok)
	}
	// the reply sink takes the direct-invoke path exactly for a direct reservation
	if f := fn(c, rapidcP, "(*Server).sendResponseUnsafe"); f != nil {
		facts := an.NewFacts(f)
		isDirect := func(want bool) func(an.Fact) bool {
			return func(ft an.Fact) bool { return ft.Val == want && an.IsFieldLoad(ft.Cond, ictxT, "Direct") }
		}
		okD, okB := false, false
		for _, call := range an.CallsTo(f, diP+".SendDirectInvokeResponse") {
			okD = facts.Holds(call.Block(), isDirect(true))
		}
		for _, call := range an.CallsTo(f, "io.ReadAll") {
			okB = facts.Holds(call.Block(), isDirect(false))
		}
		c.Check("R-GUARD", an.FuncName(f)+"/direct-exactly-for-direct", "the direct-invoke writer is used exactly for a reservation made by a direct invoke; every other response is read whole and measured", okD && okB, fpos(f), 2, "direct path under Direct: %v; buffered path under !Direct: %v", okD, okB)
	}
	// Server.Invoke: not started only without a failure channel; init-failure handling only after a failed wait; the
	// release failure handling only for a failed release; the successful arm gives the reservation back
	if inv := fn(c, rapidcP, "(*Server).Invoke"); inv != nil {
		facts := an.NewFacts(inv)
		okNS := false
		for _, e := range an.Exits(inv) {
			if len(e.Vals) == 1 && an.GlobalOf(e.Vals[0]) == "L/rapidcore.ErrInitNotStarted" {
				okNS = facts.Holds(e.Ret.Block(), func(ft an.Fact) bool {
					return an.CmpNil(ft, true, func(v ssa.Value) bool { return an.IsResultOf(v, srvT+".getInitFailuresChan", -1) })
				})
			}
		}
		okSh, okRF := false, false
		for _, g := range an.WithAnon(inv) {
			gf := an.NewFacts(g)
			for _, call := range an.CallsTo(g, srvT+".Shutdown") {
				okSh = gf.Holds(call.Block(), func(ft an.Fact) bool { return an.CmpNil(ft, false, errResultOf("Server.awaitInitialized")) }) ||
					// or, whatever the form of the test (err == A || err == B, a switch): not reachable while the error is nil
					!reachesAssumingNil(g, errResultOf("Server.awaitInitialized"), call)
			}
			for _, call := range an.CallsTo(g, srvT+".Reset") {
				if s, _ := an.ConstString(call.Common().Args[1]); s == "ReleaseFail" {
					okRF = gf.Holds(call.Block(), func(ft an.Fact) bool { return an.CmpNil(ft, false, errResultOf("Server.AwaitRelease")) })
				}
			}
		}
		okRel := false
		an.AllInstrs(inv, func(in ssa.Instruction) {
			sel, ok := in.(*ssa.Select)
			if !ok {
				return
			}
			for k, st := range sel.States {
				if chanName(st.Chan) == "releaseSuccessChan" && len(sel.States) == 3 {
					if arm := selectArmEntry(sel, k); arm != nil {
						okRel = !returnReachableAvoiding(arm, isPlainCallTo(srvT+".Release"))
					}
				}
			}
		})
		c.Check("R-GUARD", an.FuncName(inv)+"/main-path-guards", "Invoke answers 'init not started' only without a failure channel, cleans up a failed init only after awaitInitialized failed, resets for a release failure only when AwaitRelease failed, and gives the reservation back when the invocation completed", okNS && okSh && okRF && okRel, fpos(inv), 4, "not-started only without channel: %v; Shutdown under a failed init wait: %v; ReleaseFail reset under a failed release: %v; Release on the success arm: %v", okNS, okSh, okRF, okRel)
	}
}

// checkSweepMustPass: steps of the main path that must happen on every path.
func checkSweepMustPass(c *report.Ctx) {
	runMustPass(c, []mustPass{
		{"L/rapid", "handleInvoke", "stores-response-sender", "the invocation's response sender is put where the API handlers look for it, on every path (without it /response and /error panic)", isPlainCallTo("L/appctx.StoreResponseSender")},
		{"L/rapid", "Start", "stores-interop-server", "the interop server is put where the request-id validator looks for it, on every path", isPlainCallTo("L/appctx.StoreInteropServer")},
		{"L/rapid", "(*shutdownContext).setShuttingDown", "stores", "the shutting-down mark is stored (exits during a shutdown are expected, not crashes)", isStoreOf("L/rapid.shutdownContext", "shuttingDown", func(v ssa.Value) bool { _, k := v.(*ssa.Parameter); return k })},
		{rapidcP, "(*Server).Clear", "releases", "clearing the server gives the reservation back", isPlainCallTo(srvT + ".Release")},
		{rapidcP, "(*Server).setCachedInitErrorResponse", "stores", "the cached init error is stored", isStoreOf(srvT, "cachedInitErrorResponse", func(v ssa.Value) bool { _, k := v.(*ssa.Parameter); return k })},
	})
	// handleInvoke: the sender is stored before the invocation is dispatched
	if f := fn(c, "L/rapid", "handleInvoke"); f != nil {
		st := an.CallsTo(f, "L/appctx.StoreResponseSender")
		di := an.CallsTo(f, "L/rapid.doInvoke")
		ok := len(st) == 1 && len(di) == 1 && an.InstrDominates(st[0], di[0])
		c.Check("R-ORDER", an.FuncName(f)+"/sender-before-dispatch", "the response sender is stored before doInvoke dispatches the invocation", ok, fpos(f), 2, "%v", ok)
	}
	// Server.Clear drains the done channel
	if f := fn(c, rapidcP, "(*Server).Clear"); f != nil {
		drains := false
		for _, g := range append(an.WithAnon(f), f) {
			an.AllInstrs(g, func(in ssa.Instruction) {
				if sel, ok := in.(*ssa.Select); ok && !sel.Blocking {
					for _, s := range sel.States {
						if s.Dir == 2 /* recv */ || chanName(s.Chan) == "InvokeDoneChan" {
							if chanName(s.Chan) == "InvokeDoneChan" || strings.Contains(an.Path(s.Chan), "InvokeDoneChan") {
								drains = true
							}
						}
					}
				}
			})
		}
		if !drains {
			drains = len(an.CallsTo(f, "L/rapidcore.drainChannel")) == 1
		}
		c.Check("R-RESET", an.FuncName(f)+"/drains-done-channel", "clearing the server drains a completion left over from the old generation", drains, fpos(f), 1, "%v", drains)
	}
	// the shutdown fan-out's goroutines report done when they ARE done
	if f := fn(c, "L/rapid", "(*shutdownContext).shutdownAgents"); f != nil {
		n, ok := 0, true
		pos := fpos(f)
		for _, g := range f.AnonFuncs {
			dones := an.Calls(g, func(s string) bool { return s == "sync.WaitGroup.Done" })
			if len(dones) == 0 {
				continue
			}
			for _, d := range dones {
				n++
				if _, isDefer := d.(*ssa.Defer); isDefer {
					continue
				}
				// a plain Done must come after the kill / the wait for the exit
				after := false
				for _, k := range an.Calls(g, func(s string) bool { return strings.HasSuffix(s, "ProcessSupervisor.Kill") }) {
					if an.InstrDominates(k, d) {
						after = true
					}
				}
				if !after && !an.DeferOrigin(d) {
					ok = false
					pos = an.InstrPos(d)
				}
			}
		}
		c.Check("R-ORDER", an.FuncName(f)+"/done-when-done", "each fan-out goroutine reports done by defer (or after its kill), never before it has waited for or killed its extension: the reset returns only after every extension is gone", ok && n >= 2, pos, n, "Done sites: %d, deferred or after the kill: %v", n, ok)
	}
}

// checkFallbackFaultOnlyWithoutCached: the generic fault type is recorded only when the bootstrap has no cached
// fault of its own for the error.
func checkFallbackFaultOnlyWithoutCached(c *report.Ctx) {
	n := 0
	var bad []string
	pos := token.NoPos
	for _, name := range []string{"doRuntimeBootstrap", "doRuntimeDomainInit"} {
		f := fn(c, "L/rapid", name)
		if f == nil {
			continue
		}
		if len(an.Calls(f, func(s string) bool { return strings.HasSuffix(s, "Bootstrap.CachedFatalError") })) == 0 {
			continue
		}
		facts := an.NewFacts(f)
		hasErr := func(want bool) func(an.Fact) bool {
			return func(ft an.Fact) bool {
				ex, ok := ft.Cond.(*ssa.Extract)
				if !ok || ft.Val != want {
					return false
				}
				cl, isC := ex.Tuple.(*ssa.Call)
				return isC && strings.HasSuffix(an.Callee(cl), "Bootstrap.CachedFatalError") && ex.Index == 2
			}
		}
		for _, call := range an.CallsTo(f, "L/appctx.StoreFirstFatalError") {
			_, isConst := an.ConstString(call.Common().Args[1])
			n++
			if isConst && !facts.Holds(call.Block(), hasErr(false)) {
				bad = append(bad, name+": a constant fault type recorded although a cached one may exist")
				pos = an.InstrPos(call)
			}
			if !isConst && !facts.Holds(call.Block(), hasErr(true)) {
				bad = append(bad, name+": the cached fault recorded although none was found")
				pos = an.InstrPos(call)
			}
		}
	}
	// a runtime that cannot be launched always leaves a fault type behind
	if f := fn(c, "L/rapid", "doRuntimeDomainInit"); f != nil {
		for _, call := range an.CallsTo(f, supExec) {
			v := call.Value()
			if v == nil {
				continue
			}
			for _, r := range *v.Referrers() {
				bo, ok := r.(*ssa.BinOp)
				if !ok || (bo.Op != token.NEQ && bo.Op != token.EQL) {
					continue
				}
				for _, r2 := range *bo.Referrers() {
					if iff, ok := r2.(*ssa.If); ok {
						errEdge := iff.Block().Succs[0]
						if bo.Op == token.EQL {
							errEdge = iff.Block().Succs[1]
						}
						n++
						if returnReachableAvoiding(errEdge, isPlainCallTo("L/appctx.StoreFirstFatalError")) {
							bad = append(bad, "doRuntimeDomainInit: a failed runtime Exec can return without recording a fault type")
							pos = an.InstrPos(iff)
						}
					}
				}
			}
		}
	}
	sort.Strings(bad)
	c.Check("R-GUARD", "L/rapid/bootstrap-fault/cached-first", "when the bootstrap or the runtime cannot be started, the bootstrap's own cached fault is recorded when there is one and the generic type only otherwise", len(bad) == 0 && n >= 5, pos, n, "recordings examined: %d; %v", n, bad)
}

// small wiring conditions from the sweep, each run by the properties it bears on
func checkExtensionsFlagSemantics(c *report.Ctx) { sweepMisc(c, 1) }
func checkDefaultInteropServer(c *report.Ctx)    { sweepMisc(c, 2) }
func checkTerminateGroup(c *report.Ctx)          { sweepMisc(c, 3) }
func checkCredentialsRoute(c *report.Ctx)        { sweepMisc(c, 4) }

func sweepMisc(c *report.Ctx, which int) {
	// SetExtensionsFlag(true) enables, (false) disables
	if f := fn(c, rapidcP, "(*SandboxBuilder).SetExtensionsFlag"); which == 1 && f != nil && len(f.Params) == 2 {
		facts := an.NewFacts(f)
		isParam := func(want bool) func(an.Fact) bool {
			return func(ft an.Fact) bool { return ft.Cond == ssa.Value(f.Params[1]) && ft.Val == want }
		}
		okE, okD := false, false
		for _, call := range an.CallsTo(f, "L/extensions.Enable") {
			okE = facts.Holds(call.Block(), isParam(true))
		}
		for _, call := range an.CallsTo(f, "L/extensions.Disable") {
			okD = facts.Holds(call.Block(), isParam(false))
		}
		c.Check("R-GUARD", an.FuncName(f)+"/enables-when-true", "the extensions flag enables the Extensions API when true and disables it when false", okE && okD, fpos(f), 2, "Enable under true: %v; Disable under false: %v", okE, okD)
	}
	// Create falls back to the builder's own interop server
	if f := fn(c, rapidcP, "(*SandboxBuilder).Create"); which == 2 && f != nil {
		facts := an.NewFacts(f)
		ok := false
		for _, st := range an.Stores(f, "L/rapid.Sandbox", "InteropServer") {
			if an.IsFieldLoad(an.Strip(st.Val, false), "L/rapidcore.SandboxBuilder", "defaultInteropServer") {
				ok = facts.Holds(st.Block(), func(ft an.Fact) bool {
					return !ft.Val && an.IsFieldLoad(ft.Cond, "L/rapidcore.SandboxBuilder", "useCustomInteropServer")
				})
			}
		}
		c.Check("R-WIRE", an.FuncName(f)+"/default-interop-server", "unless a custom one was set, the sandbox gets the builder's own interop server", ok, fpos(f), 1, "default server stored under !useCustomInteropServer: %v", ok)
	}
	// Terminate signals the group when the group is known
	if f := fn(c, supP, "(*LocalSupervisor).Terminate"); which == 3 && f != nil {
		facts := an.NewFacts(f)
		okG := false
		for _, call := range an.CallsTo(f, "syscall.Kill") {
			if u, isU := an.Strip(call.Common().Args[0], true).(*ssa.UnOp); isU && u.Op == token.SUB {
				okG = facts.Holds(call.Block(), func(ft an.Fact) bool { return an.CmpNil(ft, true, errResultOf("syscall.Getpgid")) })
			}
		}
		c.Check("R-GUARD", an.FuncName(f)+"/group-when-known", "Terminate signals the negated process-group id exactly when Getpgid succeeded", okG, fpos(f), 1, "Kill(-pgid) under Getpgid err == nil: %v", okG)
	}
	// the credentials route
	if f := fn(c, "L/rapi", "CredentialsAPIRouter"); which == 4 && f != nil {
		ok := false
		for _, r := range routesOf(c, f) {
			if r.method == "Get" && r.pattern == "/credentials" && r.handlerCtor == "L/rapi/handler.NewCredentialsHandler" {
				ok = true
			}
		}
		c.Check("R-CONST", an.FuncName(f)+"/route", "GET /credentials is served by the credentials handler", ok, fpos(f), 1, "%v", ok)
	}
}

// reachesAssumingNil: can target be reached from g's entry on a path on which every test of the value(s) satisfying
// isErr is decided as if the value were nil (== nil holds, != nil fails, == <package-level error variable> fails)?
func reachesAssumingNil(g *ssa.Function, isErr func(ssa.Value) bool, target ssa.Instruction) bool {
	decide := func(cond ssa.Value) (bool, bool) {
		neg := false
		for i := 0; i < 8; i++ {
			if u, ok := cond.(*ssa.UnOp); ok && u.Op == token.NOT {
				neg, cond = !neg, u.X
				continue
			}
			break
		}
		bo, ok := cond.(*ssa.BinOp)
		if !ok || (bo.Op != token.EQL && bo.Op != token.NEQ) {
			return false, false
		}
		var other ssa.Value
		switch {
		case isErr(an.Strip(bo.X, false)):
			other = bo.Y
		case isErr(an.Strip(bo.Y, false)):
			other = bo.X
		default:
			return false, false
		}
		var eq bool
		switch {
		case an.IsNil(other):
			eq = true
		case an.GlobalOf(an.Strip(other, false)) != "":
			eq = false // sentinels are non-nil error values
		default:
			return false, false
		}
		return (eq == (bo.Op == token.EQL)) != neg, true
	}
	seen := map[*ssa.BasicBlock]bool{}
	var walk func(b *ssa.BasicBlock) bool
	walk = func(b *ssa.BasicBlock) bool {
		if seen[b] {
			return false
		}
		seen[b] = true
		if b == target.Block() {
			return true
		}
		succs := b.Succs
		if iff, ok := b.Instrs[len(b.Instrs)-1].(*ssa.If); ok && len(b.Succs) == 2 {
			if v, ok := decide(iff.Cond); ok {
				if v {
					succs = b.Succs[:1]
				} else {
					succs = b.Succs[1:]
				}
			}
		}
		for _, s := range succs {
			if walk(s) {
				return true
			}
		}
		return false
	}
	if len(g.Blocks) == 0 {
		return true
	}
	return walk(g.Blocks[0])
}
