package props

import (
	"sort"
	"strings"

	"golang.org/x/tools/go/ssa"

	"verif/checker/internal/an"
	"verif/checker/internal/report"
)

func init() {
	register(&Prop{
		Spec: report.Spec{
			ID: "C02",
			Explanation: "Structural necessary conditions of 'only the in-flight request id is accepted, and only once': every route carrying a request id is wrapped in the id validator, whose pass-through is dominated by 'id non-empty and equal to the current invocation id' and whose refusal renders 400; the reply sink re-checks id, ReplySent and reply stream under the server mutex and produces every non-refusal outcome only after the id test; " +
				"the response/error handlers perform the state transition first, refuse with 403 without effect, and mark the response as sent only on paths on which a reply was actually delivered; the automaton refuses second submissions; and every reply is addressed by an id captured at dispatch (URL parameter, or the id obtained when the reply stream was attached), never by 'whatever invocation is current at send time' (the one exception, /init/error which carries no id, is listed with its reason). " +
				"Added after the blind rounds: the reply sink is one critical section under the server mutex entered by every caller with the lock held by defer; SendResponse/SendErrorResponse always reach the sink; the errors the response handler switches on reach it with their identity intact (R-ERRID). " +
				"NOT decided: the timing of a stale submission relative to the next reservation (schedule quantifier); that the 400/403 reaches the client.",
			RuleText:    "one obligation per id route, per exit/producer of the reply sink, per handler effect, per ResponseSent site, per automaton cell concerned, per Send call site (origin of its id argument)",
			Assumptions: trusted,
			MinObs:      40,
		},
		Run: runC02,
	})
}

func runC02(c *report.Ctx) {
	checkErrorReplyReachesSink(c)
	checkTransitionBeforeBody(c)
	checkErrorIdentity(c, scopeReplyPath, nil, 6)
	c.Clause("1-2 id routes validated")
	if f := fn(c, "L/rapi", "NewRouter"); f != nil {
		n := 0
		for _, r := range routesOf(c, f) {
			if strings.Contains(r.pattern, "{awsrequestid}") {
				n++
				c.Check("R-WHO", "L/rapi.NewRouter/id-route-validated/"+r.method+" "+r.pattern, "a route carrying a request id is validated before its handler runs", oneOf("AwsRequestIDValidator", r.wrappers...), r.pos, 1, "wrappers: %v", r.wrappers)
			}
		}
		c.Check("R-COUNT", "L/rapi.NewRouter/id-routes", "both id-bearing routes (response, error) exist", n == 2, fpos(f), n, "%d id routes", n)
	}
	checkRequestIDValidator(c)
	c.Clause("3 re-check under the lock")
	checkReplySinkGuards(c)
	c.Clause("4 refusal has no effect in the handlers")
	rt := "L/core.Runtime."
	for _, h := range []struct{ fn, trans string }{
		{"(*invocationResponseHandler).ServeHTTP", rt + "InvocationResponse"},
		{"(*invocationErrorHandler).ServeHTTP", rt + "InvocationErrorResponse"},
	} {
		f := fn(c, "L/rapi/handler", h.fn)
		if f == nil {
			continue
		}
		checkTransitionFirst(c, f, []string{h.trans}, rt, "L/rapi/rendering.ErrorTypeInvalidStateTransition")
		checkResponseSentOnlyAfterDelivery(c, f)
	}
	c.Clause("5 second submission refused by the automaton")
	spec := runtimeFSM()
	if m := extractFSM(c, spec); m != nil {
		for _, st := range []string{"RuntimeInvocationResponseState", "RuntimeInvocationErrorResponseState", "RuntimeResponseSentState", "RuntimeReadyState", "RuntimeStartedState", "RuntimeInitErrorState"} {
			for _, meth := range []string{"InvocationResponse", "InvocationErrorResponse"} {
				got := m.cells[st][meth]
				c.Check("R-FSM", sprintf("L/core.Runtime/cell/%s.%s", st, meth), "a response or error submitted when none is expected (second submission, before next, after init error) is refused by the automaton without effect", got == "REFUSE", fpos(c.P.Func(coreP, spec.Ctor)), 1, "extracted: %s", got)
			}
		}
		got := m.cells["RuntimeRunningState"]
		c.Check("R-FSM", "L/core.Runtime/cell/RuntimeRunningState.accepts-once", "while an invocation is being processed exactly one of response / error is accepted and moves the automaton out of Running", got["InvocationResponse"] == runtimeRef["RuntimeRunningState"]["InvocationResponse"] && got["InvocationErrorResponse"] == runtimeRef["RuntimeRunningState"]["InvocationErrorResponse"], fpos(c.P.Func(coreP, spec.Ctor)), 2, "extracted: %v", got)
	}
	c.Clause("6 reply addressed by the dispatch-time id")
	checkSendAddressing(c)
}

// checkResponseSentOnlyAfterDelivery: runtime.ResponseSent() is reached only
// (a) where the immediately governing Send call is known to have returned nil, or
// (b) inside a type-switch case of a listed 'reply already delivered' error.
func checkResponseSentOnlyAfterDelivery(c *report.Ctx, f *ssa.Function) {
	facts := an.NewFacts(f)
	name := an.FuncName(f)
	delivered := map[string]bool{"L/interop.ErrorResponseTooLarge": true, "L/interop.ErrorResponseTooLargeDI": true, "L/interop.ErrTruncatedResponse": true}
	sends := an.CallsTo(f, "L/interop.InvokeResponseSender.SendResponse", "L/interop.InvokeResponseSender.SendErrorResponse")
	isSendRes := func(v ssa.Value) bool {
		v = an.Strip(v, false)
		for _, s := range sends {
			if sv := s.Value(); sv != nil && v == ssa.Value(sv) {
				return true
			}
		}
		return false
	}
	sites := an.CallsTo(f, "L/core.Runtime.ResponseSent")
	c.Check("R-COUNT", name+"/response-sent-sites", "the handler completes the invocation (ResponseSent)", len(sites) >= 1, fpos(f), len(sites), "%d sites", len(sites))
	for i, s := range sites {
		b := s.Block()
		nilSend := facts.Holds(b, func(ft an.Fact) bool { return an.CmpNil(ft, true, isSendRes) })
		inCase := ""
		for _, ft := range facts.At(b) {
			if ex, ok := ft.Cond.(*ssa.Extract); ok && ft.Val && ex.Index == 1 {
				if ta, ok := ex.Tuple.(*ssa.TypeAssert); ok && delivered[an.TypeName(ta.AssertedType)] {
					inCase = an.TypeName(ta.AssertedType)
				}
			}
		}
		c.Check("R-GUARD", sprintf("%s/response-sent%d-only-after-delivery", name, i), "the invocation is marked as answered only where a reply was delivered: the Send call returned nil, or the error says the (truncated/oversize) reply already went out; a refused submission (400) never reaches it",
			nilSend || inCase != "", an.InstrPos(s), 1, "send result known nil: %v; in delivered-error case: %q; facts: %s", nilSend, inCase, factsString(facts.At(b)))
	}
	// every send error edge that is not a delivered case returns (renders and returns)
	for si, s := range sends {
		sv := s.Value()
		if sv == nil {
			continue
		}
		tested := false
		for _, ref := range *sv.Referrers() {
			if bo, ok := ref.(*ssa.BinOp); ok && (an.IsNil(bo.X) || an.IsNil(bo.Y)) {
				tested = true
			}
		}
		if !tested {
			// `_ = server.SendErrorResponse(...)` before rendering 400: allowed only if followed by return without ResponseSent
			aft := an.NewAfter(f, func(in ssa.Instruction) uint64 {
				if an.IsCallTo(in, "L/core.Runtime.ResponseSent") {
					return 1
				}
				return 0
			}, false)
			_ = aft
			ord := an.NewOrder(f, func(in ssa.Instruction) uint64 {
				if in == ssa.Instruction(s) {
					return 1
				}
				return 0
			})
			bad := false
			for _, rs := range sites {
				if _, may := ord.Before(rs); may&1 != 0 {
					bad = true
				}
			}
			c.Check("R-GUARD", sprintf("%s/untested-send%d", name, si), "a Send whose result is ignored is never followed by ResponseSent", !bad, an.InstrPos(s), 1, "ResponseSent may follow: %v", bad)
		}
	}
}

// checkSendAddressing: origin of the invoke id passed to every SendResponse / SendErrorResponse.
func checkSendAddressing(c *report.Ctx) {
	w := newWire(c, nil, nil)
	var sites []site
	for _, f := range repoFuncs(c) {
		if strings.HasPrefix(an.FuncName(f), "L/testdata.") || strings.HasPrefix(an.FuncName(f), "L/rapidcore/standalone") {
			continue
		}
		an.AllInstrs(f, func(in ssa.Instruction) {
			call, ok := in.(ssa.CallInstruction)
			if !ok {
				return
			}
			switch an.Callee(call) {
			case "L/interop.InvokeResponseSender.SendResponse", "L/interop.InvokeResponseSender.SendErrorResponse", srvT + ".SendResponse", srvT + ".SendErrorResponse":
				sites = append(sites, site{f, call})
			}
		})
	}
	allowed := func(o string) bool {
		return o == "call:github.com/go-chi/chi.URLParam#0" || o == "call:"+srvT+".setReplyStream#0"
	}
	exceptions := map[string]string{
		srvT + ".SendInitErrorResponse": "/runtime/init/error carries no request id; during a suppressed init it can only concern the invocation in flight, and the runtime object that accepted the call belongs to the current generation",
	}
	for i, s := range sites {
		args := s.Call.Common().Args
		idArg := args[0]
		if !s.Call.Common().IsInvoke() {
			idArg = args[1]
		}
		or := w.Origins(idArg)
		ok := len(or) > 0
		for _, o := range or {
			if !allowed(o) {
				ok = false
			}
		}
		fnName := an.FuncName(s.Fn)
		if reason, ex := exceptions[fnName]; ex && !ok {
			onlyCurrent := len(or) == 1 && or[0] == "call:"+srvT+".GetCurrentInvokeID#0"
			c.Check("R-WIRE", sprintf("send-addressing/%s#%d", fnName, i), "listed exception: "+reason, onlyCurrent, an.InstrPos(s.Call), 1, "id origins: %v", or)
			continue
		}
		c.Check("R-WIRE", sprintf("send-addressing/%s#%d", fnName, i), "the reply is addressed by an id captured when the request was dispatched (URL parameter of the submission, or the id returned when the reply stream was attached), not by the invocation current at send time", ok, an.InstrPos(s.Call), len(or), "id origins: %v", or)
	}
	var names []string
	for _, s := range sites {
		names = append(names, an.FuncName(s.Fn))
	}
	sort.Strings(names)
	c.Check("R-COUNT", "send-addressing/sites", "all reply-sending call sites were found", len(sites) >= 6, 0, len(sites), "sites in: %v", names)
}
