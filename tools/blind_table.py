#!/usr/bin/env python3
"""blind_table.py <round tag, e.g. r4> <commit file> : writes seeded/ROUND<k>-BLIND.md from corpus/RESULT.json
(run tools/corpus.py with RIECHECK_BIN=<frozen binary> and the filter '<tag>m' first)."""
import json, os, sys
HERE = os.path.abspath(os.path.join(os.path.dirname(os.path.abspath(__file__)), ".."))
tag, commit = sys.argv[1], open(sys.argv[2]).read().strip()[:7]
a = {k: v for k, v in json.load(open(os.path.join(HERE, "corpus", "RESULT.json"))).items() if "-" + tag in k}
own = sum(1 for k, v in a.items() if k.split("-")[0] in v["fired"]); anyc = sum(1 for v in a.values() if v["fired"])
out = os.path.join(HERE, "seeded", "ROUND%s-BLIND.md" % tag[1:])
with open(out, "w") as f:
    f.write("# Round %s, blind: checker frozen at commit %s, before any of these seeds was looked at\n\n| seed | reported by | own property's check? |\n|---|---|---|\n" % (tag[1:], commit))
    for k, v in sorted(a.items()):
        f.write("| %s | %s | %s |\n" % (k, ", ".join(v["fired"]) or "**missed**", "yes" if k.split("-")[0] in v["fired"] else "no"))
    f.write("\n%d seeds: %d reported by the check of their own property, %d by some check, %d by none.\n" % (len(a), own, anyc, len(a) - anyc))
print(out, len(a), own, anyc)
