package props

// Rules added after the fifth blind round of seeded changes (per-file prompts, DESIGN 10.12).

import (
	"fmt"
	"go/token"
	"go/types"
	"sort"
	"strings"

	"golang.org/x/tools/go/ssa"

	"verif/checker/internal/an"
	"verif/checker/internal/report"
)

// round5Rules: which of the rules of this file each property runs after its own.
var round5Rules = map[string][]func(*report.Ctx){
	"C01": {checkFrontEndOutcomes, checkProxyWriteKeepsBody, checkNoServerTimeouts, checkCustomerHeadersEncoding},
	"C04": {checkSuspendConsumesRelease, checkCountAgentsCountsBoth},
	"C05": {checkFrontEndOutcomes, checkCancelFlowsUnconditional, checkTeardownEntryPointsUnconditional, checkTimeoutArmAlwaysResets, checkNoServerTimeouts},
	"C06": {checkFrontEndInitAndStatus, checkFrontEndOutcomes, checkCancelFlowsUnconditional, checkInitFailuresClosed, checkAppCtxMiddlewareOnRouters, checkContextClearedOnlyByReset, checkSingleEventSender, checkErrorResponseTypeVerbatim, checkBootstrapFallbackTypes, checkRuntimeLookedUpAfterSuccess},
	"C19": {checkSingleEventSender},
	"C15": {checkLaunchErrorClasses, checkAgentMapsAsArray, checkBootstrapFallbackTypes, checkLaunchErrorVerbatim, checkAgentAutomataTruthful},
	"C07": {checkNoEmptyCriticalSection, checkNilErrorNotHandled, checkFrontEndOutcomes, checkCancelFlowsUnconditional, checkInitFailuresClosed, checkTeardownEntryPointsUnconditional, checkSingleEventSender, checkRuntimeLookedUpAfterSuccess},
	"C08": {checkAppCtxPrimitives, checkExitChannelAfterExec, checkTeardownEntryPointsUnconditional, checkHandlerClosuresStateless},
	"C20": {checkHandlerClosuresStateless, checkCropOwnLength},
	"C09": {checkAgentMapsAsArray, checkAgentReleaseUnconditional, checkSuspendConsumesRelease, checkTeardownEntryPointsUnconditional, checkDeadlineUnit, checkShutdownFuncOrder, checkCountAgentsCountsBoth},
	"C12": {checkHandlersReplyOnce, checkCurrentInvokeIDTruthful, checkAppCtxMiddlewareOnRouters, checkJSONReplyBufferOwned},
	"C02": {checkCurrentInvokeIDTruthful},
	"C10": {checkFrontEndOutcomes, checkFrontEndInitAndStatus},
	"C13": {checkNoEmptyCriticalSection, checkHandlersReplyOnce, checkSuspendConsumesRelease, checkExtensionsFlagOn, checkAppCtxMiddlewareOnRouters, checkJSONReplyBufferOwned, checkEmulatorInitCopy},
	"C03": {checkExtensionsFlagOn, checkAgentListing},
	"C14": {checkProxyWriteKeepsBody, checkBufferedDirectOversize},
	"C17": {checkDirectInvokeOptionalHeaders, checkBufferedDirectClassification, checkNoEmptyCriticalSection, checkCustomerHeadersEncoding, checkBufferedDirectOversize, checkStreamingModeOverride, checkBucketAcceptsValidCombinations, checkMetricsNeverNil, checkRefillAlwaysAnnounced},
	"C16": {checkEmulatorInitCopy, checkSplitEnvVerbatim},
	"C18": {checkNoEmptyCriticalSection, checkUpdateCredentialsApplied, checkInitTypeBeforeServer},
}

// round5Text: the sentence added to each property's explanation for the rules above.
var round5Text = map[string]string{
	"C10": "After the mutation sweep: the invoke endpoint answers every error Sandbox.Invoke can report with a failure status (and the captured body for the two 'done failed' cases), the timeout with its message, and success with the captured body and status, on every path.",
	"C01": "the front end's response proxy keeps every body and refuses none; its server sets no write or whole-request deadline; the client context is standard base64 both ways. After the mutation sweep: the invoke endpoint answers every error Sandbox.Invoke can report with a failure status (and the captured body for the two 'done failed' cases), the timeout with its message, and success with the captured body and status, on every path.",
	"C02": "GetCurrentInvokeID answers \"\" only when there is no invocation context (a duplicate for the in-flight id is a 403 of the automaton, not a 400 of the id check).",
	"C03": "an entry of the extensions directory is listed exactly when it is not a directory, the path check is textual; the Extensions API is switched on unconditionally; cancelling a latch marks, records and wakes on every path.",
	"C04": "the park primitive consumes the release it was woken by (one event per release); CountAgents consults both registries.",
	"C05": "from the timeout case of Invoke no return is reachable without a synchronous Reset; the one-shot cancel reaches both flows; shutdown and clear entry points do their work in every state; no answer deadline on the front end's server. After the mutation sweep: the invoke endpoint answers every error Sandbox.Invoke can report with a failure status (and the captured body for the two 'done failed' cases), the timeout with its message, and success with the captured body and status, on every path.",
	"C06": "CancelFlows reaches both flows on every path; the init-failure channel is closed on both outcomes; routers install the application-context middleware before its readers; only the sandbox Reset clears the execution context; the supervisor has a single event sender after cmd.Wait; the error document carries the fault type unaltered; fallback fault types after Cmd()/Cwd(); the runtime object is used only after a successful doInvoke. After the mutation sweep: the invoke endpoint answers every error Sandbox.Invoke can report with a failure status (and the captured body for the two 'done failed' cases), the timeout with its message, and success with the captured body and status, on every path.",
	"C07": "as C06 for cancel fan-out, init-failure channel, single event sender and runtime lookup; teardown entry points unconditional; hand-unlocked regions are checked against panics behind interface dispatch. After the mutation sweep: the invoke endpoint answers every error Sandbox.Invoke can report with a failure status (and the captured body for the two 'done failed' cases), the timeout with its message, and success with the captured body and status, on every path. No service-time function handles the error of a call on the edge where it was tested to be nil while ignoring it where it is one (a flipped error test).",
	"C08": "an exit channel is created only after a successful Exec; Clear re-initialises in every phase; no request-handling closure writes a variable it captured.",
	"C09": "an extension's Release posts the release in every state and the park primitive consumes it; handleShutdown always runs the choreography; the reset deadline is Monotime() + 1 000 000 * timeoutMs; shutdown functions run in registration order with the sandbox reset first; CountAgents consults both registries.",
	"C12": "GetCurrentInvokeID is truthful; routers install the application-context middleware; the JSON reply body comes from a buffer allocated by that call. After the mutation sweep: every API handler answers each request on every path, and a second time only on the error edge of the first answer.",
	"C13": "the park primitive consumes the release; the Extensions API is switched on unconditionally; the extensions router installs the application-context middleware; JSON reply buffer owned by the call; the front end's init request reaches the server field by field (handler included). After the mutation sweep: every API handler answers each request on every path, and a second time only on the error edge of the first answer.",
	"C14": "the front end's response proxy keeps every body; on the buffered direct-invoke path Oversized is said only when strictly more than the limit was copied.",
	"C15": "fallback fault types after Cmd()/Cwd(); the launch error is a sentinel or the supervisor's own error (classification by identity and os.IsPermission); the extension automata are checked here too (the status lines report their states and recorded error types).",
	"C16": "every field of the front end's init request (handler included) reaches the server's; key and value of KEY=VALUE are the two sides of the first '=' exactly as given.",
	"C17": "standard base64 for the client context; buffered path: Oversized only over the limit; a streaming invoke always runs in streaming mode; NewBucket tests exactly the five tabled relations; GetMetrics never nil; every refill offers the wake-up before the next wait.",
	"C18": "UpdateCredentials returns nil only after SetCredentials; the init type is stored before the API server (whose router reads it) is built.",
	"C19": "the supervisor publishes events at exactly one place, after cmd.Wait returned for a started process.",
	"C20": "each trace list of an error cause is cut by a fraction of its own length; no request-handling closure keeps state (the runtime identity string included) between requests.",
}

// beforeEveryReturn reports whether on every path from the entry of f to every reachable return an instruction
// satisfying is has been executed; n is the number of such instructions in f.
func beforeEveryReturn(f *ssa.Function, is func(ssa.Instruction) bool) (n int, ok bool, where token.Pos) {
	an.AllInstrs(f, func(in ssa.Instruction) {
		if is(in) {
			n++
		}
	})
	ord := an.NewOrder(f, func(in ssa.Instruction) uint64 {
		if is(in) {
			return 1
		}
		return 0
	})
	ok = n > 0
	for _, e := range an.Exits(f) {
		if !ord.Reached(e.Ret) {
			continue
		}
		if must, _ := ord.Before(e.Ret); must&1 == 0 {
			ok = false
			if where == token.NoPos {
				where = an.InstrPos(e.Ret)
			}
		}
	}
	return
}

// returnReachableAvoiding: can a return be reached from the start of block b without executing an instruction
// satisfying stop?
func returnReachableAvoiding(b *ssa.BasicBlock, stop func(ssa.Instruction) bool) bool {
	seen := map[*ssa.BasicBlock]bool{}
	var walk func(x *ssa.BasicBlock) bool
	walk = func(x *ssa.BasicBlock) bool {
		if seen[x] {
			return false
		}
		seen[x] = true
		for _, in := range x.Instrs {
			if stop(in) {
				return false
			}
			if _, isRet := in.(*ssa.Return); isRet {
				return true
			}
		}
		for _, s := range x.Succs {
			if walk(s) {
				return true
			}
		}
		return false
	}
	return walk(b)
}

// returnReachableAfter: can a return be reached after instruction `from` without executing an instruction satisfying stop?
func returnReachableAfter(from ssa.Instruction, stop func(ssa.Instruction) bool) bool {
	b := from.Block()
	after := false
	for _, in := range b.Instrs {
		if in == from {
			after = true
			continue
		}
		if !after {
			continue
		}
		if stop(in) {
			return false
		}
		if _, isRet := in.(*ssa.Return); isRet {
			return true
		}
	}
	for _, s := range b.Succs {
		if returnReachableAvoiding(s, stop) {
			return true
		}
	}
	return false
}

type mustPass struct {
	pkg, fn string
	key     string
	what    string
	is      func(in ssa.Instruction) bool
}

func isStoreOf(structName, field string, val func(ssa.Value) bool) func(ssa.Instruction) bool {
	return func(in ssa.Instruction) bool {
		st, ok := in.(*ssa.Store)
		if !ok {
			return false
		}
		fr, ok := an.AsField(st.Addr)
		return ok && fr.Struct == structName && fr.Field == field && (val == nil || val(st.Val))
	}
}

func isPlainCallTo(names ...string) func(ssa.Instruction) bool {
	return func(in ssa.Instruction) bool {
		if _, ok := in.(*ssa.Call); !ok {
			return false
		}
		return an.IsCallTo(in, names...)
	}
}

func runMustPass(c *report.Ctx, rules []mustPass) {
	for _, r := range rules {
		f := fn(c, r.pkg, r.fn)
		if f == nil {
			continue
		}
		n, ok, where := beforeEveryReturn(f, r.is)
		if where == token.NoPos {
			where = fpos(f)
		}
		c.Check("R-ORDER", an.FuncName(f)+"/"+r.key, r.what, ok, where, n, "sites: %d; passed on every path to every return: %v", n, ok)
	}
}

func constFalse(v ssa.Value) bool { b, ok := an.ConstBool(v); return ok && !b }
func constTrue(v ssa.Value) bool  { b, ok := an.ConstBool(v); return ok && b }

// checkAgentReleaseUnconditional: releasing an extension posts the release whatever state the extension is in
// (an extension busy with an event finds it at its next poll - that is how it gets its SHUTDOWN event).
func checkAgentReleaseUnconditional(c *report.Ctx) {
	rel := isPlainCallTo("L/core.ManagedThread.Release", "L/core.Suspendable.Release")
	runMustPass(c, []mustPass{
		{"L/core", "(*ExternalAgent).Release", "always-releases", "releasing an external extension posts the release on every path (sticky wake-up: an extension still busy with an event finds it at its next poll and receives its SHUTDOWN event)", rel},
		{"L/core", "(*InternalAgent).Release", "always-releases", "releasing an internal extension posts the release on every path", rel},
	})
}

// checkSuspendConsumesRelease: a parked thread that is released consumes the release (exactly one wake-up per
// Release: the next poll parks again instead of being answered with the same event).
func checkSuspendConsumesRelease(c *report.Ctx) {
	runMustPass(c, []mustPass{
		{"L/core", "(*ManagedThread).SuspendUnsafe", "consumes-the-release", "every return from the park primitive has reset the operator condition (one Release answers one poll: a SHUTDOWN or INVOKE event is delivered exactly once)", isStoreOf("L/core.ManagedThread", "operatorConditionValue", constFalse)},
	})
}

// checkTeardownEntryPointsUnconditional: the teardown entry points do their work whatever the state.
func checkTeardownEntryPointsUnconditional(c *report.Ctx) {
	runMustPass(c, []mustPass{
		{"L/rapid", "handleShutdown", "always-shuts-down", "a shutdown request always runs the shutdown choreography (extensions launched before the runtime registered are signalled and reaped too)", isPlainCallTo("L/rapid.shutdownContext.shutdown")},
		{"L/rapid", "(*rapidContext).Clear", "always-reinitialises", "clearing the execution context re-initialises it whatever phase the old generation was in (a reset during an unfinished init included)", isPlainCallTo("L/rapid.reinitialize")},
	})
}

// checkInitFailuresClosed: the init-result channel is closed on both outcomes.
func checkInitFailuresClosed(c *report.Ctx) {
	runMustPass(c, []mustPass{
		{"L/rapidcore", "(*Server).awaitInitCompletion", "closes-init-failures", "the init-failure channel is closed whether init succeeded or failed (every later wait for initialisation returns at once instead of blocking until the function timeout)", func(in ssa.Instruction) bool {
			call, ok := in.(*ssa.Call)
			if !ok {
				return false
			}
			b, ok := call.Call.Value.(*ssa.Builtin)
			return ok && b.Name() == "close" && len(call.Call.Args) == 1 && an.IsFieldLoad(call.Call.Args[0], srvT, "initFailures")
		}},
	})
}

// checkCancelUnconditional: cancelling a latch marks it cancelled, records the error and wakes the waiters
// whatever its counters say (a latch whose condition is met can still be waited on after the next re-arm).
func checkCancelUnconditional(c *report.Ctx) {
	runMustPass(c, []mustPass{
		{"L/core", "(*gateImpl).CancelWithError", "always-marks-cancelled", "CancelWithError sets the cancelled mark on every path, open latch or not (the mark must survive re-arming until Clear)", isStoreOf(gateT, "canceled", constTrue)},
		{"L/core", "(*gateImpl).CancelWithError", "always-records-error", "CancelWithError records the error on every path", isStoreOf(gateT, "err", func(v ssa.Value) bool { _, ok := v.(*ssa.Parameter); return ok })},
		{"L/core", "(*gateImpl).CancelWithError", "always-wakes-waiters", "CancelWithError broadcasts on every path", isPlainCallTo("sync.Cond.Broadcast")},
	})
}

// checkProxyWriteKeepsBody: the front end's response proxy accepts every body the core hands it.
func checkProxyWriteKeepsBody(c *report.Ctx) {
	f := fn(c, "M/cmd/aws-lambda-rie", "(*ResponseWriterProxy).Write")
	if f == nil {
		return
	}
	n, ok, where := beforeEveryReturn(f, isStoreOf("M/cmd/aws-lambda-rie.ResponseWriterProxy", "Body", func(v ssa.Value) bool { _, k := v.(*ssa.Parameter); return k }))
	errs := 0
	for _, e := range an.Exits(f) {
		if len(e.Vals) == 2 && !an.IsNil(e.Vals[1]) {
			errs++
		}
	}
	if where == token.NoPos {
		where = fpos(f)
	}
	c.Check("R-ORDER", an.FuncName(f)+"/keeps-every-body", "the response proxy keeps the body it is given on every path and never refuses one (the size limit is the core's: 6 MiB + 100 bytes must arrive intact)", ok && errs == 0, where, n, "stores of the body: %d, on every path: %v; exits with an error: %d", n, ok, errs)
}

// checkUpdateCredentialsApplied: a restore that reports success has replaced the credentials.
func checkUpdateCredentialsApplied(c *report.Ctx) {
	f := fn(c, "L/core", "(*credentialsServiceImpl).UpdateCredentials")
	if f == nil {
		return
	}
	is := isPlainCallTo("L/core.credentialsServiceImpl.SetCredentials")
	ord := an.NewOrder(f, func(in ssa.Instruction) uint64 {
		if is(in) {
			return 1
		}
		return 0
	})
	n, ok := 0, true
	var where = fpos(f)
	for _, e := range an.Exits(f) {
		if len(e.Vals) != 1 || !an.IsNil(e.Vals[0]) || !ord.Reached(e.Ret) {
			continue
		}
		n++
		if must, _ := ord.Before(e.Ret); must&1 == 0 {
			ok = false
			where = an.InstrPos(e.Ret)
		}
	}
	c.Check("R-ORDER", an.FuncName(f)+"/success-means-replaced", "UpdateCredentials returns nil only after SetCredentials ran (the credentials endpoint reflects the most recent restore, whatever the expiry dates)", ok && n >= 1, where, n, "success exits: %d, all after SetCredentials: %v", n, ok)
}

func fmtSscan(s string, v *int64) (int, error) { return fmt.Sscan(s, v) }

var _ = types.Universe
var _ = sort.Strings
var _ = strings.HasPrefix

// selectArmEntry returns the block entered when select sel chose state k.
func selectArmEntry(sel *ssa.Select, k int) *ssa.BasicBlock {
	for _, ref := range *sel.Referrers() {
		ex, ok := ref.(*ssa.Extract)
		if !ok || ex.Index != 0 {
			continue
		}
		for _, r2 := range *ex.Referrers() {
			bo, ok := r2.(*ssa.BinOp)
			if !ok || bo.Op != token.EQL {
				continue
			}
			if n, isC := an.ConstInt(bo.Y); !isC || int(n) != k {
				continue
			}
			for _, r3 := range *bo.Referrers() {
				if iff, ok := r3.(*ssa.If); ok {
					return iff.Block().Succs[0]
				}
			}
		}
	}
	return nil
}

// checkTimeoutArmAlwaysResets: once the watchdog fired, Invoke cannot return without having reset the environment.
func checkTimeoutArmAlwaysResets(c *report.Ctx) {
	inv := fn(c, rapidcP, "(*Server).Invoke")
	if inv == nil {
		return
	}
	var arm *ssa.BasicBlock
	an.AllInstrs(inv, func(in ssa.Instruction) {
		sel, ok := in.(*ssa.Select)
		if !ok || arm != nil {
			return
		}
		for k, st := range sel.States {
			if st.Dir == types.RecvOnly && chanName(st.Chan) == "timeoutChan" {
				arm = selectArmEntry(sel, k)
			}
		}
	})
	if arm == nil {
		c.Unresolved("ANCHOR", srvT+".Invoke/timeout-case", "no select case of Server.Invoke receives from the watchdog's channel")
		return
	}
	isReset := isPlainCallTo(srvT + ".Reset")
	leak := returnReachableAvoiding(arm, isReset)
	pos := fpos(inv)
	if len(arm.Instrs) > 0 {
		pos = an.InstrPos(arm.Instrs[0])
	}
	c.Check("R-ORDER", an.FuncName(inv)+"/timeout-case-always-resets", "from the moment the watchdog's timeout was received no path leads to a return without a (synchronous) Reset: a timed-out invocation is never answered with the old processes still in place", !leak, pos, 1, "a return is reachable from the timeout case without passing Reset: %v", leak)
}

// checkCurrentInvokeIDTruthful: the id validator's source says "no invocation" only when there is no reservation.
func checkCurrentInvokeIDTruthful(c *report.Ctx) {
	f := fn(c, rapidcP, "(*Server).GetCurrentInvokeID")
	if f == nil {
		return
	}
	facts := an.NewFacts(f)
	n, ok, idOK := 0, true, false
	pos := fpos(f)
	for _, e := range an.Exits(f) {
		if len(e.Vals) != 1 {
			continue
		}
		if s, isC := an.ConstString(e.Vals[0]); isC && s == "" {
			n++
			if !facts.Holds(e.Ret.Block(), func(ft an.Fact) bool { return an.CmpNil(ft, true, loadOf(srvT, "invokeCtx")) }) {
				ok = false
				pos = an.InstrPos(e.Ret)
			}
			continue
		}
		if fr, isF := an.AsField(e.Vals[0]); isF && fr.Field == "InvokeID" {
			idOK = true
		}
	}
	c.Check("R-GUARD", an.FuncName(f)+"/empty-only-without-reservation", "GetCurrentInvokeID answers \"\" only when there is no invocation context, and the context's id otherwise (a duplicate submission for the in-flight id is refused by the lifecycle automaton with 403, not by the id check with 400)", ok && idOK && n >= 1, pos, n, "empty-string exits: %d, all under invokeCtx == nil: %v; other exits return the token's InvokeID: %v", n, ok, idOK)
}

// multiplierOf: v == k * p for the parameter p, through conversions, constant multiplications and the
// unit-preserving time.Duration accessors.
func multiplierOf(v ssa.Value, p *ssa.Parameter, depth int) (int64, bool) {
	if depth > 12 {
		return 0, false
	}
	v = an.Strip(v, true)
	switch x := v.(type) {
	case *ssa.Parameter:
		if x == p {
			return 1, true
		}
	case *ssa.BinOp:
		if x.Op == token.MUL {
			if k, ok := an.ConstInt(x.Y); ok {
				if m, ok2 := multiplierOf(x.X, p, depth+1); ok2 {
					return m * k, true
				}
			}
			if k, ok := an.ConstInt(x.X); ok {
				if m, ok2 := multiplierOf(x.Y, p, depth+1); ok2 {
					return m * k, true
				}
			}
		}
	case *ssa.Call:
		switch an.Callee(x) {
		case "time.Duration.Nanoseconds":
			return multiplierOf(x.Call.Args[0], p, depth+1)
		}
	}
	return 0, false
}

// checkDeadlineUnit: the reset deadline is "now (monotonic) + timeoutMs milliseconds" in nanoseconds.
func checkDeadlineUnit(c *report.Ctx) {
	f := fn(c, rapidcP, "deadlineNsFromTimeoutMs")
	if f == nil || len(f.Params) != 1 {
		return
	}
	ok, detail := false, "no exit of the form Monotime() + k*timeoutMs"
	for _, e := range an.Exits(f) {
		if len(e.Vals) != 1 {
			continue
		}
		bo, isB := an.Strip(e.Vals[0], true).(*ssa.BinOp)
		if !isB || bo.Op != token.ADD {
			continue
		}
		for _, pair := range [][2]ssa.Value{{bo.X, bo.Y}, {bo.Y, bo.X}} {
			if cl, _ := an.CallOf(an.Strip(pair[0], true)); cl != nil && an.Callee(cl) == "L/metering.Monotime" {
				if m, k := multiplierOf(pair[1], f.Params[0], 0); k {
					ok = m == 1000000
					detail = sprintf("Monotime() + %d * timeoutMs", m)
				}
			}
		}
	}
	c.Check("R-CONST", an.FuncName(f)+"/milliseconds-to-nanoseconds", "the reset deadline handed to the shutdown choreography is the monotonic clock plus timeoutMs * 1 000 000 ns (TERM-before-KILL and the SHUTDOWN deadline are fractions of it)", ok, fpos(f), 1, "%s", detail)
}

// checkShutdownFuncOrder: shutdown functions run in the order they were registered (the sandbox's own reset was
// registered by the constructor, the front end's os.Exit afterwards).
func checkShutdownFuncOrder(c *report.Ctx) {
	f := fn(c, rapidcP, "(*SandboxBuilder).AddShutdownFunc")
	if f == nil {
		return
	}
	sbT := "L/rapidcore.SandboxBuilder"
	ok, n := false, 0
	for _, st := range an.Stores(f, sbT, "shutdownFuncs") {
		n++
		cl, _ := an.CallOf(st.Val)
		if cl == nil {
			continue
		}
		if b, isB := cl.Call.Value.(*ssa.Builtin); !isB || b.Name() != "append" || len(cl.Call.Args) != 2 {
			continue
		}
		// append(<the field>, <slice holding the parameter>)
		if an.IsFieldLoad(cl.Call.Args[0], sbT, "shutdownFuncs") {
			ok = true
		}
	}
	c.Check("R-ORDER", an.FuncName(f)+"/appends", "a shutdown function is appended after the ones registered before it (on SIGTERM the sandbox reset - TERM, SHUTDOWN events, reaping - runs before the front end's os.Exit)", ok && n == 1, fpos(f), n, "stores to shutdownFuncs: %d; of the form append(shutdownFuncs, f): %v", n, ok)
	// the constructor registers the reset before anybody else can register anything
	if nb := fn(c, rapidcP, "NewSandboxBuilder"); nb != nil {
		has := false
		reset := c.P.Func(rapidcP, "(*Server).Reset")
		for _, call := range an.CallsTo(nb, sbT+".AddShutdownFunc") {
			var g *ssa.Function
			switch x := an.Strip(call.Common().Args[1], false).(type) {
			case *ssa.MakeClosure:
				g, _ = x.Fn.(*ssa.Function)
			case *ssa.Function:
				g = x
			}
			if g != nil && reset != nil && reachableFrom(c, g)[reset] {
				has = true
			}
		}
		c.Check("R-ORDER", an.FuncName(nb)+"/registers-reset-first", "the sandbox's own teardown is the first shutdown function (registered by the constructor)", has && len(an.CallsTo(nb, sbT+".AddShutdownFunc")) >= 1, fpos(nb), 1, "constructor registers a shutdown function that resets the sandbox: %v", has)
	}
}

// checkExtensionsFlagOn: the emulator enables the Extensions API unconditionally (internal extensions register
// over the API and are not files).
func checkExtensionsFlagOn(c *report.Ctx) {
	m := fn(c, "M/cmd/aws-lambda-rie", "main")
	if m == nil {
		return
	}
	n, ok := 0, true
	for _, call := range an.CallsTo(m, "L/rapidcore.SandboxBuilder.SetExtensionsFlag") {
		n++
		if b, isC := an.ConstBool(call.Common().Args[1]); !isC || !b {
			ok = false
		}
	}
	c.Check("R-CONST", "M/cmd/aws-lambda-rie.main/extensions-enabled", "the front end switches the Extensions API on unconditionally", ok && n == 1, fpos(m), n, "SetExtensionsFlag calls: %d, with the constant true: %v", n, ok)
}

// checkInitTypeBeforeServer: the init type is recorded before the API server (whose router reads it) is built.
func checkInitTypeBeforeServer(c *report.Ctx) {
	f := fn(c, "L/rapid", "Start")
	if f == nil {
		return
	}
	st := an.CallsTo(f, "L/appctx.StoreInitType")
	srv := an.CallsTo(f, "L/rapi.NewServer")
	ok := len(st) == 1 && len(srv) == 1 && an.InstrDominates(st[0], srv[0])
	c.Check("R-ORDER", an.FuncName(f)+"/init-type-before-router", "the init type (snapshot mode or not) is stored in the application context before the Runtime API server is constructed: the router decides at construction time whether the restore and credentials routes exist", ok, fpos(f), len(st)+len(srv), "StoreInitType: %d, NewServer: %d, in that order: %v", len(st), len(srv), ok)
}

// serveOfCtor resolves the ServeHTTP method of the handler a constructor ("L/rapi/handler.NewXHandler") returns.
func serveOfCtor(c *report.Ctx, ctor string) *ssa.Function {
	i := strings.LastIndex(ctor, ".")
	if i < 0 || !strings.HasPrefix(ctor, "L/") {
		return nil
	}
	cf := c.P.Func(ctor[:i], ctor[i+1:])
	if cf == nil {
		return nil
	}
	for _, e := range an.Exits(cf) {
		if len(e.Vals) != 1 {
			continue
		}
		t := an.Strip(e.Vals[0], false).Type()
		tn := an.TypeName(t)
		j := strings.LastIndex(tn, ".")
		if j < 0 || !strings.HasPrefix(tn, "L/") {
			continue
		}
		for _, m := range methodsOf(c, tn[:j], tn[j+1:]) {
			if m.Name() == "ServeHTTP" {
				return m
			}
		}
	}
	return nil
}

// mwName: the middleware constructor or function an argument of Use denotes.
func mwName(v ssa.Value) string {
	name, wr := decodeHandler(v)
	if len(wr) > 0 {
		return "L/rapi/middleware." + wr[0]
	}
	return name
}

// checkAppCtxMiddlewareOnRouters: every router with a handler or middleware that reads the application context
// off the request installs the middleware that puts it there, before anything that reads it.
func checkAppCtxMiddlewareOnRouters(c *report.Ctx) {
	fromReq := c.P.Func("L/appctx", "FromRequest")
	if fromReq == nil {
		c.Unresolved("ANCHOR", "L/appctx.FromRequest", "function not found")
		return
	}
	// reads: the function, its closures and what they call statically (not what a `next.ServeHTTP` may dispatch to)
	reads := func(fs ...*ssa.Function) bool {
		seen := map[*ssa.Function]bool{}
		var work []*ssa.Function
		for _, f := range fs {
			if f != nil {
				work = append(work, f)
			}
		}
		for len(work) > 0 {
			f := work[len(work)-1]
			work = work[:len(work)-1]
			if seen[f] {
				continue
			}
			seen[f] = true
			if f == fromReq {
				return true
			}
			work = append(work, f.AnonFuncs...)
			an.AllInstrs(f, func(in ssa.Instruction) {
				if call, ok := in.(ssa.CallInstruction); ok {
					if sc := call.Common().StaticCallee(); sc != nil && sc.Pkg != nil && strings.HasPrefix(sc.Pkg.Pkg.Path(), "go.amzn.com") {
						work = append(work, sc)
					}
				}
			})
		}
		return false
	}
	mw := func(name string) *ssa.Function { return c.P.Func("L/rapi/middleware", name) }
	nrouters := 0
	for _, f := range repoFuncs(c) {
		if !strings.HasPrefix(an.FuncName(f), "L/rapi.") || f.Parent() != nil || len(an.CallsTo(f, "github.com/go-chi/chi.NewRouter")) == 0 {
			continue
		}
		nrouters++
		var needers []ssa.Instruction
		var why []string
		for _, r := range routesOf(c, f) {
			need := reads(serveOfCtor(c, r.handlerCtor))
			for _, w := range r.wrappers {
				if reads(mw(w)) {
					need = true
				}
			}
			if need {
				why = append(why, r.method+" "+r.pattern)
			}
		}
		var install ssa.Instruction
		for _, u := range an.CallsTo(f, "github.com/go-chi/chi.Mux.Use") {
			for _, a := range u.Common().Args[1:] {
				name := mwName(a)
				// variadic: the slice's elements
				if sl, ok := a.(*ssa.Slice); ok {
					if al, ok := sl.X.(*ssa.Alloc); ok {
						for _, ref := range *al.Referrers() {
							if ia, ok := ref.(*ssa.IndexAddr); ok {
								for _, r2 := range *ia.Referrers() {
									if st, ok := r2.(*ssa.Store); ok {
										name = mwName(st.Val)
									}
								}
							}
						}
					}
				}
				short := strings.TrimPrefix(name, "L/rapi/middleware.")
				if short == "AppCtxMiddleware" {
					install = u
					continue
				}
				if m := mw(short); m != nil && reads(m) {
					needers = append(needers, u)
					why = append(why, "middleware "+short)
				}
			}
		}
		ok := len(why) == 0 || install != nil
		pos := fpos(f)
		if ok && install != nil {
			for _, u := range needers {
				if !an.InstrDominates(install, u) {
					ok = false
					pos = an.InstrPos(u)
				}
			}
			an.AllInstrs(f, func(in ssa.Instruction) {
				if call, isC := in.(*ssa.Call); isC && strings.HasPrefix(an.Callee(call), "github.com/go-chi/chi.Mux.") && !an.IsCallTo(in, "github.com/go-chi/chi.Mux.Use") && !an.InstrDominates(install, in) {
					ok = false
					pos = an.InstrPos(in)
				}
			})
		}
		c.Check("R-WIRE", an.FuncName(f)+"/application-context-installed", "a router whose handlers or middleware read the application context off the request installs AppCtxMiddleware before them (otherwise the handler panics after its state transition and the report is never answered)", ok, pos, len(why)+1, "readers of the request's application context: %v; AppCtxMiddleware installed: %v", why, install != nil)
	}
	c.Check("R-COUNT", "L/rapi/routers", "the router constructors were found", nrouters >= 5, token.NoPos, nrouters, "%d", nrouters)
}

// checkContextClearedOnlyByReset: the execution context is re-initialised by the reset entry point only (the
// shutdown after a failed init must leave the state as it is: the suppressed init of the next invocation fails on
// it and so reports the fault).
func checkContextClearedOnlyByReset(c *report.Ctx) {
	sites := callSites(c, "L/rapid.rapidContext.Clear", "L/interop.RapidContext.Clear")
	callers := uniq(siteFns(sites))
	ok := len(callers) == 1 && stripAnon(callers[0]) == "L/rapidcore.SandboxContext.Reset"
	pos := token.NoPos
	for _, s := range sites {
		if stripAnon(an.FuncName(s.Fn)) != "L/rapidcore.SandboxContext.Reset" {
			pos = an.InstrPos(s.Call)
		}
	}
	c.Check("R-WHO", "L/rapid.rapidContext.Clear/callers", "the execution context is cleared by the sandbox's Reset only", ok, pos, len(sites), "callers: %v", callers)
}

// checkSingleEventSender: the local supervisor publishes an event at one place only, after the process was waited for.
func checkSingleEventSender(c *report.Ctx) {
	var sends []*ssa.Send
	var where []string
	for _, f := range repoFuncs(c) {
		if !strings.HasPrefix(an.FuncName(f), supP+".") && !strings.HasPrefix(an.FuncName(f), "L/supervisor.") {
			continue
		}
		for _, s := range allSends(f) {
			if chanName(s.Chan) == "events" {
				sends = append(sends, s)
				where = append(where, an.FuncName(f))
			}
		}
	}
	ok := len(sends) == 1
	pos := token.NoPos
	if len(sends) > 0 {
		pos = an.InstrPos(sends[len(sends)-1])
	}
	afterWait := false
	if ok {
		for _, w := range an.CallsTo(sends[0].Parent(), "os/exec.Cmd.Wait") {
			if an.InstrDominates(w, sends[0]) {
				afterWait = true
			}
		}
	}
	c.Check("R-COUNT", "L/supervisor.LocalSupervisor.events/single-sender", "the supervisor publishes events at exactly one place, after cmd.Wait returned for a process that was started (a launch failure is reported by Exec's error alone: an event for a name without exit channel would bring the emulator down)", ok && afterWait, pos, len(sends), "send sites: %v; after cmd.Wait: %v", where, afterWait)
}

// checkErrorResponseTypeVerbatim: the platform's error document names the fault type it was given.
func checkErrorResponseTypeVerbatim(c *report.Ctx) {
	f := fn(c, "L/interop", "GetErrorResponseWithFormattedErrorMessage")
	if f == nil || len(f.Params) == 0 {
		return
	}
	n, ok, verbatim := 0, true, 0
	pos := fpos(f)
	for _, st := range an.Stores(f, "L/interop.FunctionError", "Type") {
		n++
		v := an.Strip(st.Val, true)
		if p, isP := v.(*ssa.Parameter); isP && p == f.Params[0] {
			verbatim++
			continue
		}
		if _, isC := v.(*ssa.Const); isC {
			continue
		}
		ok = false
		pos = an.InstrPos(st)
	}
	c.Check("R-WIRE", an.FuncName(f)+"/type-verbatim", "the error document carries the fault type handed in, unaltered (Extension.Crash, Extension.ExitError, Sandbox.* are not of the Runtime.X/Function.X form a sanitiser lets through)", ok && verbatim >= 1, pos, n, "stores of FunctionError.Type: %d, of the parameter itself: %d, all parameter or constant: %v", n, verbatim, ok)
}

// checkBootstrapFallbackTypes: a bootstrap that cannot be resolved is recorded as an invalid entry point, a
// working directory that cannot be resolved as an invalid working directory.
func checkBootstrapFallbackTypes(c *report.Ctx) {
	f := fn(c, "L/rapid", "doRuntimeBootstrap")
	if f == nil {
		return
	}
	facts := an.NewFacts(f)
	want := map[string]string{"Cmd": "Runtime.InvalidEntrypoint", "Cwd": "Runtime.InvalidWorkingDir"}
	errOf := func(meth string) func(ssa.Value) bool {
		return func(v ssa.Value) bool {
			cl, idx := an.CallOf(v)
			return cl != nil && idx == 1 && strings.HasSuffix(an.Callee(cl), "Bootstrap."+meth)
		}
	}
	n := 0
	var bad []string
	pos := fpos(f)
	seen := map[string]bool{}
	for _, call := range an.CallsTo(f, "L/appctx.StoreFirstFatalError") {
		s, isC := an.ConstString(call.Common().Args[1])
		if !isC {
			continue
		}
		for meth, w := range want {
			if facts.Holds(call.Block(), func(ft an.Fact) bool { return an.CmpNil(ft, false, errOf(meth)) }) {
				n++
				seen[meth] = true
				if s != w {
					bad = append(bad, sprintf("after a failing %s(): %s", meth, s))
					pos = an.InstrPos(call)
				}
			}
		}
	}
	sort.Strings(bad)
	c.Check("R-WIRE", an.FuncName(f)+"/fallback-error-types", "the fallback fault type recorded after a failing Cmd() is Runtime.InvalidEntrypoint, after a failing Cwd() Runtime.InvalidWorkingDir", len(bad) == 0 && seen["Cmd"] && seen["Cwd"], pos, n, "constant fault types recorded on the two error paths: %d; wrong: %v", n, bad)
}

// checkRuntimeLookedUpAfterSuccess: in the invoke handler (a background goroutine nobody recovers) the runtime
// object is looked up only once doInvoke succeeded; after a failed one (an init interrupted before the runtime was
// registered, a reset that cleared the registrations) there may be none.
func checkRuntimeLookedUpAfterSuccess(c *report.Ctx) {
	f := fn(c, "L/rapid", "handleInvoke")
	if f == nil {
		return
	}
	facts := an.NewFacts(f)
	okRes := func(v ssa.Value) bool { return an.IsResultOf(v, "L/rapid.doInvoke", -1) }
	n, ok := 0, true
	pos := fpos(f)
	for _, call := range an.CallsTo(f, "L/core.RegistrationService.GetRuntime", "L/core.registrationServiceImpl.GetRuntime") {
		v := call.Value()
		if v == nil {
			continue
		}
		deref := false
		for _, r := range *v.Referrers() {
			if bo, isB := r.(*ssa.BinOp); isB && (bo.Op == token.EQL || bo.Op == token.NEQ) {
				continue
			}
			deref = true
		}
		if !deref {
			continue
		}
		n++
		if !facts.Holds(call.Block(), func(ft an.Fact) bool { return an.CmpNil(ft, true, okRes) }) {
			ok = false
			pos = an.InstrPos(call)
		}
	}
	c.Check("R-GUARD", an.FuncName(f)+"/runtime-looked-up-after-success", "handleInvoke uses the registered runtime object only on the path where doInvoke returned nil (on the failure path none may be registered, and a nil dereference in this goroutine takes the emulator down)", ok && n >= 1, pos, n, "uses of GetRuntime(): %d, all under doInvoke() == nil: %v", n, ok)
}

// checkHandlerClosuresStateless: request-handling closures keep no state of their own between requests (state
// that survives a request survives a reset: nothing clears a variable captured by a middleware closure).
func checkHandlerClosuresStateless(c *report.Ctx) {
	var bad []string
	pos := token.NoPos
	n := 0
	rootedAtFreeVar := func(v ssa.Value) bool {
		for i := 0; i < 8; i++ {
			switch x := v.(type) {
			case *ssa.FreeVar:
				return true
			case *ssa.FieldAddr:
				v = x.X
			case *ssa.IndexAddr:
				v = x.X
			case *ssa.UnOp:
				if x.Op != token.MUL {
					return false
				}
				v = x.X
			default:
				return false
			}
		}
		return false
	}
	for _, f := range repoFuncs(c) {
		if f.Parent() == nil || !isHTTPHandlerSig(f.Signature) || strings.HasPrefix(an.FuncName(f), "L/testdata.") {
			continue
		}
		for _, g := range an.WithAnon(f) {
			n++
			an.AllInstrs(g, func(in ssa.Instruction) {
				switch x := in.(type) {
				case *ssa.Store:
					if rootedAtFreeVar(x.Addr) {
						bad = append(bad, an.FuncName(g)+": store to captured "+an.Path(x.Addr))
						pos = an.InstrPos(in)
					}
				case *ssa.MapUpdate:
					if rootedAtFreeVar(x.Map) {
						bad = append(bad, an.FuncName(g)+": update of captured map "+an.Path(x.Map))
						pos = an.InstrPos(in)
					}
				case ssa.CallInstruction:
					sc := x.Common().StaticCallee()
					if sc == nil || sc.Pkg == nil || sc.Signature.Recv() == nil || len(x.Common().Args) == 0 {
						return
					}
					if p := sc.Pkg.Pkg.Path(); p != "sync/atomic" {
						return
					}
					if oneOf(sc.Name(), "Store", "Add", "Swap", "CompareAndSwap", "And", "Or") && rootedAtFreeVar(x.Common().Args[0]) {
						bad = append(bad, an.FuncName(g)+": atomic "+sc.Name()+" on captured "+an.Path(x.Common().Args[0]))
						pos = an.InstrPos(in)
					}
				}
			})
		}
	}
	sort.Strings(bad)
	c.Check("R-RESET", "handler-closures/no-captured-state", "no request-handling closure (middleware, handler function) writes a variable it captured: such a variable is per-process state that no reset clears", len(bad) == 0 && n >= 5, pos, n, "request-handling closures: %d; writes to captured variables: %v", n, bad)
}

// checkJSONReplyBufferOwned: the bytes of a JSON reply come from a buffer that belongs to this request alone.
func checkJSONReplyBufferOwned(c *report.Ctx) {
	f := fn(c, "L/rapi/rendering", "RenderJSON")
	if f == nil {
		return
	}
	n, ok := 0, true
	pos := fpos(f)
	for _, call := range an.Calls(f, func(s string) bool { return s == "bytes.Buffer.Bytes" }) {
		n++
		recv := an.Strip(call.Common().Args[0], false)
		if _, fresh := recv.(*ssa.Alloc); !fresh {
			ok = false
			pos = an.InstrPos(call)
		}
	}
	c.Check("R-WIRE", an.FuncName(f)+"/reply-buffer-owned", "the reply body is taken from a buffer allocated by this very call (a buffer from a shared pool can be handed to a concurrent reply before its bytes were written)", ok && n >= 1, pos, n, "Bytes() calls: %d, all on a buffer allocated here: %v", n, ok)
}

// checkBufferedDirectOversize: on the buffered direct-invoke path a response is Oversized exactly when more than
// the per-request limit was copied (the copy reads one byte past the limit to find out).
func checkBufferedDirectOversize(c *report.Ctx) {
	g := fn(c, diP, "sendPayloadLimitedResponse")
	if g == nil {
		return
	}
	name := an.FuncName(g)
	facts := an.NewFacts(g)
	isMax := func(v ssa.Value) bool { return an.GlobalOf(an.Strip(v, true)) == diP+".MaxDirectResponseSize" }
	isMaxPlus1 := func(v ssa.Value) bool {
		bo, k := an.Strip(v, true).(*ssa.BinOp)
		if !k || bo.Op != token.ADD || !isMax(bo.X) {
			return false
		}
		n, kk := an.ConstInt(bo.Y)
		return kk && n == 1
	}
	isWritten := func(v ssa.Value) bool { return an.IsResultOf(an.Strip(v, true), "io.Copy", 0) }
	okLR := false
	for _, call := range an.CallsTo(g, "io.LimitReader") {
		if isMaxPlus1(call.Common().Args[1]) {
			okLR = true
		}
	}
	c.Check("R-WIRE", name+"/limit-plus-one", "the buffered copy reads at most one byte past the per-request limit", okLR, fpos(g), 1, "LimitReader(payload, limit+1): %v", okLR)
	n, ok := 0, true
	pos := fpos(g)
	an.AllInstrs(g, func(in ssa.Instruction) {
		call, isC := in.(ssa.CallInstruction)
		if !isC || an.Callee(call) != "net/http.Header.Set" {
			return
		}
		if s, k := an.ConstString(call.Common().Args[1]); !k || s != "End-Of-Response" {
			return
		}
		if v, _ := an.ConstString(call.Common().Args[2]); v != "Oversized" {
			return
		}
		n++
		over := facts.Holds(in.Block(), func(ft an.Fact) bool {
			r, k := an.AsRel(ft)
			if !k {
				return false
			}
			for _, rr := range []an.Rel{r, r.Flip()} {
				if !isWritten(rr.X) {
					continue
				}
				if rr.Op == token.EQL && isMaxPlus1(rr.Y) || rr.Op == token.GTR && isMax(rr.Y) || rr.Op == token.GEQ && isMaxPlus1(rr.Y) {
					return true
				}
			}
			return false
		})
		if !over {
			ok = false
			pos = an.InstrPos(in)
		}
	})
	c.Check("R-GUARD", name+"/oversized-strict", "the Oversized trailer (and the ResponseTooLarge error) is given only when strictly more than the per-request limit was copied: a response of exactly the limit is Complete", ok && n == 1, pos, n, "Oversized trailer sites: %d, under written > limit: %v", n, ok)
}

// checkLaunchErrorVerbatim: the error recorded for an extension that could not be launched is the one the classifier
// understands: the sentinel for "too many" or the supervisor's own error (os.IsPermission does not look inside a
// wrapped error).
func checkLaunchErrorVerbatim(c *report.Ctx) {
	n := 0
	var bad []string
	pos := token.NoPos
	idx := callersIndex(c)
	// origins of the error handed to ExternalAgent.LaunchError, through the parameters of the helpers in between
	var origins func(fn *ssa.Function, v ssa.Value, depth int, at ssa.Instruction)
	origins = func(fn *ssa.Function, v ssa.Value, depth int, at ssa.Instruction) {
		for _, leaf := range an.PhiLeaves(v) {
			w := an.Strip(leaf, false)
			if g := an.GlobalOf(w); strings.HasPrefix(g, "L/core.Err") {
				n++
				continue
			}
			if cl, _ := an.CallOf(w); cl != nil && strings.HasSuffix(an.Callee(cl), ".Exec") {
				n++
				continue
			}
			if p, isP := w.(*ssa.Parameter); isP && depth < 4 {
				pi := -1
				for i, q := range fn.Params {
					if q == p {
						pi = i
					}
				}
				followed := false
				for _, call := range idx[fn] {
					if pi >= 0 && pi < len(call.Common().Args) {
						followed = true
						origins(call.Parent(), call.Common().Args[pi], depth+1, call)
					}
				}
				if followed {
					continue
				}
			}
			bad = append(bad, an.FuncName(fn)+": "+an.Path(w))
			pos = an.InstrPos(at)
		}
	}
	for _, st := range callSites(c, "L/core.ExternalAgent.LaunchError") {
		if !strings.HasPrefix(an.FuncName(st.Fn), "L/rapid.") {
			continue
		}
		args := st.Call.Common().Args
		if len(args) != 2 {
			continue
		}
		origins(st.Fn, args[1], 0, st.Call)
	}
	c.Check("R-ERRID", "L/rapid.agentLaunchError/error-verbatim", "the launch error handed to the extension's state is a core sentinel or the supervisor's error itself, never a wrapped or re-made one (its classification - PermissionDenied, TooManyExtensions - is by identity and os.IsPermission)", len(bad) == 0 && n >= 2, pos, n, "origins of the recorded launch error: %d; re-made errors: %v", n, bad)
}

// checkEmulatorInitCopy: the front end's init request reaches the core with every field it carries.
func checkEmulatorInitCopy(c *report.Ctx) {
	f := fn(c, rapidcP, "(*EmulatorAPI).Init")
	if f == nil {
		return
	}
	fields := []string{"AccountID", "Handler", "AwsKey", "AwsSecret", "AwsSession", "XRayDaemonAddress", "FunctionName", "FunctionVersion", "CustomerEnvironmentVariables", "RuntimeInfo", "SandboxType", "Bootstrap", "EnvironmentVariables"}
	calls := an.CallsTo(f, srvT+".Init")
	if len(calls) != 1 {
		c.Check("R-WIRE", an.FuncName(f)+"/init-fields-copied", "the init request is handed to the server once", false, fpos(f), len(calls), "Server.Init calls: %d", len(calls))
		return
	}
	arg := an.Strip(calls[0].Common().Args[1], false)
	var missing, wrong []string
	if _, isP := arg.(*ssa.Parameter); !isP {
		got := map[string]ssa.Value{}
		for _, st := range an.Stores(f, "L/interop.Init", "") {
			fr, _ := an.AsField(st.Addr)
			if fr.Base == arg {
				got[fr.Field] = st.Val
			}
		}
		for _, fld := range fields {
			v, has := got[fld]
			if !has {
				missing = append(missing, fld)
				continue
			}
			if !(an.IsFieldLoad(v, "L/interop.Init", fld) && an.IsInput(v)) {
				wrong = append(wrong, fld+" <- "+an.Path(v))
			}
		}
	}
	c.Check("R-WIRE", an.FuncName(f)+"/init-fields-copied", "handler, function name and version, credentials, customer variables, bootstrap and the other fields of the front end's init request each reach the server's init request from the field of the same name (a dropped handler lets a customer variable named _HANDLER decide)", len(missing) == 0 && len(wrong) == 0, fpos(f), len(fields), "fields not copied: %v; copied from elsewhere: %v", missing, wrong)
}

// checkSplitEnvVerbatim: key and value of KEY=VALUE are the two sides of the first '=', untouched.
func checkSplitEnvVerbatim(c *report.Ctx) {
	f := fn(c, "L/rapidcore/env", "SplitEnvironmentVariable")
	if f == nil {
		return
	}
	n, ok := 0, true
	pos := fpos(f)
	var detail []string
	for _, e := range an.Exits(f) {
		if len(e.Vals) != 3 || !an.IsNil(e.Vals[2]) {
			continue
		}
		n++
		for i := 0; i < 2; i++ {
			v := an.Strip(e.Vals[i], false)
			good := false
			// an element of strings.SplitN(s, "=", 2) or a result of strings.Cut(s, "=")
			if u, isU := v.(*ssa.UnOp); isU && u.Op == token.MUL {
				if ia, isI := u.X.(*ssa.IndexAddr); isI {
					if cl, _ := an.CallOf(ia.X); cl != nil && an.Callee(cl) == "strings.SplitN" {
						if k, _ := an.ConstInt(cl.Call.Args[2]); k == 2 {
							if idx, isC := an.ConstInt(ia.Index); isC && int(idx) == i {
								good = true
							}
						}
					}
				}
			}
			if cl, idx := an.CallOf(v); cl != nil && an.Callee(cl) == "strings.Cut" && idx == i {
				good = true
			}
			if !good {
				ok = false
				pos = an.InstrPos(e.Ret)
				detail = append(detail, sprintf("result %d is %s", i, an.Path(v)))
			}
		}
	}
	c.Check("R-WIRE", an.FuncName(f)+"/verbatim", "the key and the value returned are the text before and after the first '=' exactly as given (values keep leading/trailing blanks, newlines and further '=' signs)", ok && n >= 1, pos, n, "success exits: %d; %v", n, detail)
}

// checkStreamingModeOverride: a direct invoke recognised as streaming (no payload limit, or the header says so)
// runs in streaming mode - the buffered path with "no limit" would forward nothing.
func checkStreamingModeOverride(c *report.Ctx) {
	f := fn(c, diP, "ReceiveDirectInvoke")
	if f == nil {
		return
	}
	k := c.P.Const("L/interop", "InvokeResponseModeStreaming")
	want := ""
	if k != nil {
		want, _ = an.ConstString(k.Value)
	}
	var arm *ssa.BasicBlock
	for _, call := range an.CallsTo(f, diP+".isStreamingInvoke") {
		if v := call.Value(); v != nil {
			for _, r := range *v.Referrers() {
				if iff, ok := r.(*ssa.If); ok {
					arm = iff.Block().Succs[0]
				}
			}
		}
	}
	if arm == nil || want == "" {
		c.Unresolved("ANCHOR", diP+".ReceiveDirectInvoke/streaming-branch", "no branch on isStreamingInvoke(...) found")
		return
	}
	isSet := func(in ssa.Instruction) bool {
		st, ok := in.(*ssa.Store)
		if !ok {
			return false
		}
		g, ok := st.Addr.(*ssa.Global)
		if !ok || an.Path(g) != diP+".InvokeResponseMode" {
			return false
		}
		s, isC := an.ConstString(st.Val)
		return isC && s == want
	}
	// only the returns that hand back an invoke matter
	seen := map[*ssa.BasicBlock]bool{}
	leak := false
	var walk func(b *ssa.BasicBlock)
	walk = func(b *ssa.BasicBlock) {
		if seen[b] || leak {
			return
		}
		seen[b] = true
		for _, in := range b.Instrs {
			if isSet(in) {
				return
			}
			if r, ok := in.(*ssa.Return); ok {
				if len(r.Results) == 2 && an.IsNil(r.Results[1]) {
					leak = true
				}
				return
			}
		}
		for _, s := range b.Succs {
			walk(s)
		}
	}
	walk(arm)
	c.Check("R-ORDER", an.FuncName(f)+"/streaming-invoke-runs-streaming", "every accepted request recognised as a streaming invoke has its response mode set to streaming (a request with payload limit -1 and no mode header must not stay buffered: the buffered copy is limited to limit+1 = 0 bytes)", !leak, fpos(f), 1, "an accepting return is reachable from the streaming branch without the override: %v", leak)
}

// relKey renders a relational test between parameters/constants of f in a canonical form.
func relKey(f *ssa.Function, bo *ssa.BinOp) (string, bool) {
	side := func(v ssa.Value) (string, bool) {
		v = an.Strip(v, true)
		if p, ok := v.(*ssa.Parameter); ok {
			for i, q := range f.Params {
				if q == p {
					return sprintf("p%d", i), true
				}
			}
		}
		if n, ok := an.ConstInt(v); ok {
			return sprintf("%d", n), true
		}
		return "", false
	}
	x, okx := side(bo.X)
	y, oky := side(bo.Y)
	if !okx || !oky {
		return "", false
	}
	op := bo.Op
	// constant or higher parameter to the right
	if !strings.HasPrefix(x, "p") || (strings.HasPrefix(y, "p") && y < x) {
		x, y = y, x
		switch op {
		case token.LSS:
			op = token.GTR
		case token.GTR:
			op = token.LSS
		case token.LEQ:
			op = token.GEQ
		case token.GEQ:
			op = token.LEQ
		}
	}
	// x < c  ==  x <= c-1 ; x > c == x >= c+1 for integers
	if n, isC := an.ConstInt(bo.Y); isC && !strings.HasPrefix(y, "p") {
		_ = n
		var cv int64
		if _, err := fmtSscan(y, &cv); err == nil {
			switch op {
			case token.LSS:
				op, y = token.LEQ, sprintf("%d", cv-1)
			case token.GTR:
				op, y = token.GEQ, sprintf("%d", cv+1)
			}
		}
	}
	return x + " " + op.String() + " " + y, true
}

// checkBucketAcceptsValidCombinations: the token bucket refuses exactly the parameter sets that make no sense;
// rate and burst come from independently validated headers, so any further condition refuses valid requests.
func checkBucketAcceptsValidCombinations(c *report.Ctx) {
	f := fn(c, bwP, "NewBucket")
	if f == nil {
		return
	}
	// the outcome depends on the four parameters through comparisons only: decide it per ordering
	var wrong []string
	if decided, rows := decideRefusals(f, 4, 1, func(a []int64, refused bool) {
		want := a[0] <= 0 || a[1] < 0 || a[2] <= 0 || a[3] <= 0 || a[0] < a[1]
		if want != refused && len(wrong) < 3 {
			wrong = append(wrong, sprintf("(capacity %d, initial %d, refill %d, interval %d) refused: %v", a[0], a[1], a[2], a[3], refused))
		}
	}); decided {
		c.Check("R-GUARD", an.FuncName(f)+"/refusal-conditions", "NewBucket refuses exactly: capacity <= 0, initial < 0, refill <= 0, interval <= 0, capacity < initial; a refill larger than the capacity is a legal combination of the rate and burst headers (decided per ordering of the parameters and the constants compared with)", len(wrong) == 0 && rows > 0, fpos(f), rows, "orderings decided: %d; wrong outcomes: %v", rows, wrong)
		return
	}
	want := map[string]bool{"p0 <= 0": true, "p1 <= -1": true, "p2 <= 0": true, "p3 <= 0": true, "p0 < p1": true}
	got := map[string]bool{}
	an.AllInstrs(f, func(in ssa.Instruction) {
		bo, ok := in.(*ssa.BinOp)
		if !ok {
			return
		}
		switch bo.Op {
		case token.LSS, token.GTR, token.LEQ, token.GEQ, token.EQL, token.NEQ:
		default:
			return
		}
		if k, ok := relKey(f, bo); ok {
			got[k] = true
		}
	})
	var extra, missing []string
	for k := range got {
		if !want[k] {
			extra = append(extra, k)
		}
	}
	for k := range want {
		if !got[k] {
			missing = append(missing, k)
		}
	}
	sort.Strings(extra)
	sort.Strings(missing)
	c.Check("R-GUARD", an.FuncName(f)+"/refusal-conditions", "NewBucket tests exactly: capacity <= 0, initial < 0, refill <= 0, interval <= 0, capacity < initial (p0..p3 = capacity, initial, refill, interval); a refill larger than the capacity is a legal combination of the rate and burst headers", len(extra) == 0 && len(missing) == 0, fpos(f), len(got), "tests found: %v; unexpected: %v; missing: %v", keysOf(got), extra, missing)
}

// checkMetricsNeverNil: the streaming writer always reports its metrics object (consumers dereference it).
func checkMetricsNeverNil(c *report.Ctx) {
	f := fn(c, bwP, "(*BandwidthLimitingWriter).GetMetrics")
	if f == nil {
		return
	}
	n, ok := 0, true
	pos := fpos(f)
	for _, e := range an.Exits(f) {
		if len(e.Vals) != 1 {
			continue
		}
		n++
		if !an.IsFieldLoad(an.Strip(e.Vals[0], false), bwP+".Throttler", "metrics") {
			ok = false
			pos = an.InstrPos(e.Ret)
		}
	}
	c.Check("R-WIRE", an.FuncName(f)+"/always-the-throttler-metrics", "GetMetrics returns the throttler's metrics object on every path (the copy result dereferences it unconditionally; a zero-byte streamed response never started the throttler)", ok && n >= 1, pos, n, "exits: %d, all returning the throttler's metrics: %v", n, ok)
}

// checkRefillAlwaysAnnounced: every tick of the refill loop offers a wake-up to a waiting writer.
func checkRefillAlwaysAnnounced(c *report.Ctx) {
	st := fn(c, bwP, "(*Throttler).start")
	if st == nil {
		return
	}
	var g *ssa.Function
	var prod ssa.Instruction
	for _, a := range an.WithAnon(st) {
		if cs := an.CallsTo(a, bwP+".Bucket.produceTokens"); len(cs) > 0 {
			g, prod = a, cs[0]
		}
	}
	if g == nil {
		c.Unresolved("ANCHOR", bwP+".Throttler.start/refill-loop", "no call of produceTokens in the throttler's goroutine")
		return
	}
	isAnnounce := func(in ssa.Instruction) bool {
		sel, ok := in.(*ssa.Select)
		if !ok {
			return false
		}
		for _, s := range sel.States {
			if s.Dir == types.SendOnly && chanName(s.Chan) == "produced" {
				return true
			}
		}
		return false
	}
	// from just after produceTokens: reaching the next wait of the loop (another select) or a return without the offer
	leak := false
	seen := map[*ssa.BasicBlock]bool{}
	var scan func(instrs []ssa.Instruction, b *ssa.BasicBlock)
	scan = func(instrs []ssa.Instruction, b *ssa.BasicBlock) {
		for _, in := range instrs {
			if isAnnounce(in) {
				return
			}
			if _, isSel := in.(*ssa.Select); isSel {
				leak = true
				return
			}
			if _, isRet := in.(*ssa.Return); isRet {
				leak = true
				return
			}
		}
		for _, s := range b.Succs {
			if !seen[s] {
				seen[s] = true
				scan(s.Instrs, s)
			}
		}
	}
	pb := prod.Block()
	for i, in := range pb.Instrs {
		if in == prod {
			scan(pb.Instrs[i+1:], pb)
		}
	}
	c.Check("R-ORDER", an.FuncName(g)+"/refill-always-announced", "after every refill the loop offers a (non-blocking) wake-up on the produced channel before it waits for the next tick: a writer that missed the tokens of this tick is woken by the next one, so the copy always terminates", !leak, an.InstrPos(prod), 1, "the next wait or a return is reachable after produceTokens without the offer: %v", leak)
}

// checkCropOwnLength: each trace list of an error cause is cut to a fraction of ITS OWN length.
func checkCropOwnLength(c *report.Ctx) {
	f := fn(c, "L/rapi/model", "(*errorCauseCompactor).cropStackTraces")
	if f == nil {
		return
	}
	ecT := "L/rapi/model.ErrorCause"
	var lensIn func(v ssa.Value, depth int, out map[string]bool)
	lensIn = func(v ssa.Value, depth int, out map[string]bool) {
		if depth > 10 || v == nil {
			return
		}
		if x, ok := an.LenArg(v); ok {
			if fr, isF := an.AsField(an.Strip(x, false)); isF && fr.Struct == ecT {
				out[fr.Field] = true
			} else {
				out["?"+an.Path(x)] = true
			}
			return
		}
		in, ok := v.(ssa.Instruction)
		if !ok {
			return
		}
		if _, isPhi := v.(*ssa.Phi); isPhi {
			for _, e := range v.(*ssa.Phi).Edges {
				lensIn(e, depth+1, out)
			}
			return
		}
		var rands []*ssa.Value
		for _, r := range in.Operands(rands) {
			if *r != nil {
				lensIn(*r, depth+1, out)
			}
		}
	}
	n := 0
	var bad []string
	pos := fpos(f)
	an.AllInstrs(f, func(in ssa.Instruction) {
		sl, ok := in.(*ssa.Slice)
		if !ok || sl.High == nil {
			return
		}
		fr, isF := an.AsField(an.Strip(sl.X, false))
		if !isF || fr.Struct != ecT {
			return
		}
		n++
		got := map[string]bool{}
		lensIn(sl.High, 0, got)
		if len(got) != 1 || !got[fr.Field] {
			bad = append(bad, sprintf("%s cut to a length computed from %v", fr.Field, keysOf(got)))
			pos = an.InstrPos(in)
		}
	})
	c.Check("R-WIRE", an.FuncName(f)+"/own-length", "Exceptions and Paths are each cut to a fraction of their own length (a length taken from the other list invents empty entries or slices out of range)", len(bad) == 0 && n == 2, pos, n, "slices: %d; %v", n, bad)
}

// checkCustomerHeadersEncoding: the client-context header is standard base64, both ways.
func checkCustomerHeadersEncoding(c *report.Ctx) {
	n := 0
	var bad []string
	pos := token.NoPos
	for _, name := range []string{"(*CustomerHeaders).Load", "(CustomerHeaders).Dump"} {
		f := c.P.Func(diP, name)
		if f == nil {
			f = fn(c, diP, strings.Replace(name, "(CustomerHeaders)", "(*CustomerHeaders)", 1))
		}
		if f == nil {
			continue
		}
		an.AllInstrs(f, func(in ssa.Instruction) {
			call, ok := in.(ssa.CallInstruction)
			if !ok {
				return
			}
			cal := an.Callee(call)
			if !strings.HasPrefix(cal, "encoding/base64.") {
				return
			}
			for _, a := range call.Common().Args {
				if g := an.GlobalOf(an.Strip(a, false)); strings.HasPrefix(g, "encoding/base64.") {
					n++
					if g != "encoding/base64.StdEncoding" {
						bad = append(bad, an.FuncName(f)+": "+g)
						pos = an.InstrPos(in)
					}
				}
			}
		})
	}
	c.Check("R-CONST", diP+".CustomerHeaders/standard-base64", "the Customer-Headers value (client context, Cognito identity) is encoded and decoded with the standard base64 alphabet, which is what the invoking side sends", len(bad) == 0 && n >= 2, pos, n, "encodings used: %d; not StdEncoding: %v", n, bad)
}

// checkAgentListing: every non-directory entry of the extensions directory is listed; nothing else decides.
func checkAgentListing(c *report.Ctx) {
	f := fn(c, "L/agents", "ListExternalAgentPaths")
	if f == nil {
		return
	}
	facts := an.NewFacts(f)
	var isDirCalls []ssa.CallInstruction
	an.AllInstrs(f, func(in ssa.Instruction) {
		if call, ok := in.(ssa.CallInstruction); ok && strings.HasSuffix(an.Callee(call), "DirEntry.IsDir") {
			isDirCalls = append(isDirCalls, call)
		}
	})
	n, ok := 0, len(isDirCalls) == 1
	pos := fpos(f)
	var extra []string
	if ok {
		before := map[string]bool{}
		for _, ft := range facts.At(isDirCalls[0].Block()) {
			before[factsString([]an.Fact{ft})] = true
		}
		an.AllInstrs(f, func(in ssa.Instruction) {
			call, isC := in.(*ssa.Call)
			if !isC || !an.InLoop(in) {
				return
			}
			if b, isB := call.Call.Value.(*ssa.Builtin); !isB || b.Name() != "append" {
				return
			}
			n++
			for _, ft := range facts.At(in.Block()) {
				if before[factsString([]an.Fact{ft})] {
					continue
				}
				if cl, _ := an.CallOf(ft.Cond); cl != nil && cl == isDirCalls[0].(*ssa.Call) && !ft.Val {
					continue
				}
				extra = append(extra, factsString([]an.Fact{ft}))
				pos = an.InstrPos(in)
			}
		})
	}
	c.Check("R-GUARD", an.FuncName(f)+"/every-non-directory-entry", "an entry of the extensions directory is listed exactly when it is not a directory: no further condition (name, kind, link) filters entries", ok && n == 1 && len(extra) == 0, pos, n, "IsDir tests: %d; appends in the loop: %d; further conditions on the way to the append: %v", len(isDirCalls), n, extra)
	// the path check looks at the text of the path only
	if g := fn(c, "L/agents", "isCanonical"); g != nil {
		var other []string
		an.AllInstrs(g, func(in ssa.Instruction) {
			if call, isC := in.(ssa.CallInstruction); isC {
				if cal := an.Callee(call); !oneOf(cal, "path/filepath.Abs", "path/filepath.Clean", "path/filepath.IsAbs", "path.Clean", "path.IsAbs") {
					other = append(other, cal)
				}
			}
		})
		c.Check("R-NOEFFECT", an.FuncName(g)+"/textual", "whether the extensions directory is acceptable depends on the text of its path alone (absolute and clean), not on what the file system holds there (a directory reached through a symbolic link is still the extensions directory)", len(other) == 0, fpos(g), 1, "calls other than filepath.Abs/Clean/IsAbs: %v", other)
	}
}

// checkCountAgentsCountsBoth: the number of extensions counts internal and external ones.
func checkCountAgentsCountsBoth(c *report.Ctx) {
	f := fn(c, coreP, "(*registrationServiceImpl).CountAgents")
	if f == nil {
		return
	}
	seen := map[*ssa.Function]bool{}
	got := map[string]bool{}
	var visit func(g *ssa.Function, depth int)
	visit = func(g *ssa.Function, depth int) {
		if g == nil || seen[g] || depth > 3 {
			return
		}
		seen[g] = true
		for _, a := range an.WithAnon(g) {
			an.AllInstrs(a, func(in ssa.Instruction) {
				if fa, ok := in.(*ssa.FieldAddr); ok {
					if fr, k := an.AsField(fa); k && fr.Struct == "L/core.registrationServiceImpl" && oneOf(fr.Field, "externalAgents", "internalAgents") {
						got[fr.Field] = true
					}
				}
				if call, ok := in.(ssa.CallInstruction); ok {
					if sc := call.Common().StaticCallee(); sc != nil && sc.Signature.Recv() != nil && an.TypeName(sc.Signature.Recv().Type()) == "L/core.registrationServiceImpl" {
						visit(sc, depth+1)
					}
				}
			})
		}
	}
	visit(f, 0)
	c.Check("R-WIRE", an.FuncName(f)+"/counts-internal-and-external", "CountAgents is computed from both the external and the internal extension maps (an invocation waits for internal INVOKE subscribers too; a reset is graceful whenever any extension exists)", got["externalAgents"] && got["internalAgents"], fpos(f), 2, "maps consulted: %v", keysOf(got))
}

// checkCancelFlowsUnconditional: the first cancel cancels both flows, whatever state the registration service is in.
func checkCancelFlowsUnconditional(c *report.Ctx) {
	f := fn(c, coreP, "(*registrationServiceImpl).CancelFlows")
	if f == nil {
		return
	}
	found := false
	for _, g := range an.WithAnon(f) {
		if len(an.Calls(g, func(s string) bool { return strings.HasSuffix(s, "FlowSynchronization.CancelWithError") })) == 0 {
			continue
		}
		found = true
		for _, flow := range []string{"InitFlowSynchronization", "InvokeFlowSynchronization"} {
			n, ok, where := beforeEveryReturn(g, isPlainCallTo("L/core."+flow+".CancelWithError"))
			if where == token.NoPos {
				where = fpos(g)
			}
			c.Check("R-FANOUT", "L/core.registrationServiceImpl.CancelFlows/always-cancels/"+flow, "the one-shot cancel reaches the init flow and the invoke flow on every path (the shot is spent either way: a flow left out can never be cancelled again in this generation)", ok, where, n, "calls: %d, on every path: %v", n, ok)
		}
	}
	if !found {
		c.Unresolved("ANCHOR", "L/core.registrationServiceImpl.CancelFlows/body", "no function of CancelFlows cancels a flow")
	}
}

// checkExitChannelAfterExec: an exit channel is created only for a process that was started.
func checkExitChannelAfterExec(c *report.Ctx) { checkJustification(c, "exec-then-create-channel") }

// checkAgentAutomataTruthful: the extension state machines (what the status lines of C15 report) are the documented ones.
func checkAgentAutomataTruthful(c *report.Ctx) {
	for _, spec := range []fsmSpec{externalFSM(), internalFSM()} {
		m := extractFSM(c, spec)
		checkFSM(c, spec, m)
	}
}

// tableRowsOf: v is a field read off an element (at a non-constant index) of a local array/slice literal of
// structs; returns the field's name and the literal's rows, each a map from field name to the value stored.
func tableRowsOf(v ssa.Value) (field string, rows []map[string]ssa.Value) {
	var elem ssa.Value
	switch x := v.(type) {
	case *ssa.UnOp: // *(&elem.f)
		if fa, ok := x.X.(*ssa.FieldAddr); ok && x.Op == token.MUL {
			if fr, k := an.AsField(fa); k {
				field, elem = fr.Field, fa.X
			}
		}
	case *ssa.Field: // (elem value).f
		if fr, k := an.AsField(x); k {
			field, elem = fr.Field, x.X
		}
	}
	if elem == nil {
		return "", nil
	}
	// the loop variable of `for _, h := range table`: a local copy of the element
	if al, ok := elem.(*ssa.Alloc); ok {
		var src ssa.Value
		n := 0
		for _, r := range *al.Referrers() {
			if st, ok := r.(*ssa.Store); ok && st.Addr == ssa.Value(al) {
				n++
				src = st.Val
			}
		}
		if n == 1 {
			elem = src
		}
	}
	var base ssa.Value
	switch e := elem.(type) {
	case *ssa.IndexAddr:
		base = e.X
	case *ssa.UnOp:
		if ia, ok := e.X.(*ssa.IndexAddr); ok && e.Op == token.MUL {
			base = ia.X
		}
	case *ssa.Index:
		if ld, ok := e.X.(*ssa.UnOp); ok && ld.Op == token.MUL {
			base = ld.X
		}
	}
	if sl, ok := base.(*ssa.Slice); ok {
		base = sl.X
	}
	arr, ok := base.(*ssa.Alloc)
	if !ok {
		return "", nil
	}
	for _, r := range *arr.Referrers() {
		ea, ok := r.(*ssa.IndexAddr)
		if !ok {
			continue
		}
		if _, constIdx := ea.Index.(*ssa.Const); !constIdx {
			continue
		}
		row := map[string]ssa.Value{}
		for _, r2 := range *ea.Referrers() {
			fa, ok := r2.(*ssa.FieldAddr)
			if !ok {
				continue
			}
			fr, k := an.AsField(fa)
			if !k {
				continue
			}
			for _, r3 := range *fa.Referrers() {
				if st, ok := r3.(*ssa.Store); ok && st.Addr == ssa.Value(fa) {
					row[fr.Field] = st.Val
				}
			}
		}
		if len(row) > 0 {
			rows = append(rows, row)
		}
	}
	return field, rows
}

// checkHandlersReplyOnce: every Runtime/Extensions API handler answers each request on every path, and answers a
// second time only when the first answer reported that it could not be written (a call that is accepted or refused
// without an answer leaves the client hanging; two answers corrupt the stream). An answer is WriteHeader/Write on
// the ResponseWriter, http.Error, a Render* function of the rendering package, the rendering service, or a helper
// of the handler package that does one of these.
func checkHandlersReplyOnce(c *report.Ctx) {
	direct := func(call ssa.CallInstruction) bool {
		cc := call.Common()
		if cc.IsInvoke() {
			if strings.HasSuffix(cc.Value.Type().String(), "http.ResponseWriter") && oneOf(cc.Method.Name(), "WriteHeader", "Write") {
				return true
			}
			return false
		}
		cal := an.Callee(call)
		if oneOf(cal, "fmt.Fprint", "fmt.Fprintf", "fmt.Fprintln", "io.WriteString", "io.Copy") && len(cc.Args) > 0 && strings.HasSuffix(an.Strip(cc.Args[0], false).Type().String(), "http.ResponseWriter") {
			return true
		}
		return cal == "net/http.Error" || strings.HasPrefix(cal, "L/rapi/rendering.Render") || strings.HasPrefix(cal, "L/rapi/rendering.EventRenderingService.Render")
	}
	// helpers of the handler package that answer
	repliers := map[*ssa.Function]bool{}
	for changed := true; changed; {
		changed = false
		for _, f := range repoFuncs(c) {
			if !strings.HasPrefix(an.FuncName(f), "L/rapi/handler.") || f.Name() == "ServeHTTP" || repliers[f] {
				continue
			}
			an.AllInstrs(f, func(in ssa.Instruction) {
				if call, ok := in.(*ssa.Call); ok {
					if sc := call.Common().StaticCallee(); direct(call) || sc != nil && repliers[sc] {
						if !repliers[f] {
							repliers[f] = true
							changed = true
						}
					}
				}
			})
		}
	}
	n := 0
	for _, f := range repoFuncs(c) {
		name := an.FuncName(f)
		if !strings.HasPrefix(name, "L/rapi/handler.") || f.Name() != "ServeHTTP" || f.Parent() != nil {
			continue
		}
		n++
		isReply := func(in ssa.Instruction) bool {
			call, ok := in.(*ssa.Call)
			if !ok {
				return false
			}
			if direct(call) {
				return true
			}
			sc := call.Common().StaticCallee()
			return sc != nil && repliers[sc]
		}
		min, _ := an.Count(f, isReply)
		// a further answer is given only on the error edge of an earlier one
		ord := an.NewOrder(f, func(in ssa.Instruction) uint64 {
			if isReply(in) {
				return 1
			}
			return 0
		})
		facts := an.NewFacts(f)
		var replies []ssa.Instruction
		an.AllInstrs(f, func(in ssa.Instruction) {
			if isReply(in) {
				replies = append(replies, in)
			}
		})
		failedBefore := func(ft an.Fact) bool {
			return an.CmpNil(ft, false, func(v ssa.Value) bool {
				cl, _ := an.CallOf(v)
				return cl != nil && isReply(cl)
			})
		}
		var twice []string
		pos := fpos(f)
		for _, r := range replies {
			if _, may := ord.Before(r); may&1 != 0 && !facts.Holds(r.Block(), failedBefore) {
				twice = append(twice, an.Describe(r))
				pos = an.InstrPos(r)
			}
		}
		c.Check("R-COUNT", name+"/answers-once", "the handler answers the request on every path, and a second time only after the first answer failed to be written", min >= 1 && len(twice) == 0, pos, len(replies), "answer sites: %d; fewest answers on a path: %d; possibly second answers not on the error edge of the first: %v", len(replies), min, twice)
	}
	c.Check("R-COUNT", "L/rapi/handler/handlers", "the API handlers were enumerated", n >= 12, token.NoPos, n, "%d", n)
}

// checkFrontEndOutcomes: whatever Sandbox.Invoke reports, the invoke endpoint tells its caller: a failure is never
// answered like a success (every error case that returns has set a status of 400 or more, the two "done failed"
// cases and the timeout also write their body), and the success path always writes the captured body.
func checkFrontEndOutcomes(c *report.Ctx) {
	f := fn(c, "M/cmd/aws-lambda-rie", "InvokeHandler")
	if f == nil {
		return
	}
	facts := an.NewFacts(f)
	inv := an.CallsTo(f, "M/cmd/aws-lambda-rie.Sandbox.Invoke")
	if len(inv) != 1 {
		c.Check("R-COUNT", an.FuncName(f)+"/one-invoke", "the handler hands the request to the sandbox once", false, fpos(f), len(inv), "Sandbox.Invoke calls: %d", len(inv))
		return
	}
	isWriteBody := func(in ssa.Instruction) bool {
		call, ok := in.(*ssa.Call)
		if !ok || an.Callee(call) != "net/http.ResponseWriter.Write" {
			return false
		}
		fr, k := an.AsField(an.Strip(call.Common().Args[0], true))
		return k && fr.Struct == "M/cmd/aws-lambda-rie.ResponseWriterProxy" && fr.Field == "Body"
	}
	isStatus := func(in ssa.Instruction) (int64, bool) {
		call, ok := in.(*ssa.Call)
		if !ok || an.Callee(call) != "net/http.ResponseWriter.WriteHeader" {
			return 0, false
		}
		n, k := an.ConstInt(call.Common().Args[0])
		return n, k
	}
	// per error case: the entry block of the case is the one where exactly that equality first holds
	type want struct {
		min  int64
		body bool
	}
	table := map[string]want{
		"ErrAlreadyReserved": {400, false}, "ErrInternalServerError": {500, false}, "ErrInitDoneFailed": {500, true},
		"ErrReserveReservationDone": {500, false}, "ErrAlreadyInvocating": {400, false}, "ErrInvokeReservationDone": {500, false},
		"ErrInvokeDoneFailed": {500, true}, "ErrReleaseReservationDone": {500, false},
	}
	// the blocks of a case: what is reachable after the call when every test of its error is decided as for that
	// sentinel (arms merged with `case A, B:` or `||` lose their branch facts at the join; this walk does not)
	_ = facts
	caseBlocks := map[string][]*ssa.BasicBlock{}
	for _, e := range []string{"ErrAlreadyReserved", "ErrInternalServerError", "ErrInitDoneFailed", "ErrReserveReservationDone", "ErrAlreadyInvocating", "ErrInvokeReservationDone", "ErrInvokeDoneFailed", "ErrReleaseReservationDone", "ErrInvokeTimeout"} {
		skip := assumeErrIs(inv[0].Value(), "L/rapidcore."+e)
		seen := map[*ssa.BasicBlock]bool{}
		var walk func(b *ssa.BasicBlock)
		walk = func(b *ssa.BasicBlock) {
			if seen[b] {
				return
			}
			seen[b] = true
			caseBlocks[e] = append(caseBlocks[e], b)
			for _, sx := range b.Succs {
				if !skip(b, sx) {
					walk(sx)
				}
			}
		}
		start := inv[0].Block()
		seen[start] = true
		for _, sx := range start.Succs {
			if !skip(start, sx) {
				walk(sx)
			}
		}
	}
	var names []string
	for k := range table {
		names = append(names, k)
	}
	sort.Strings(names)
	for _, e := range names {
		w := table[e]
		blocks := caseBlocks[e]
		// a case shared by several errors (`case A: case B: case C: body`) shows its body under the last one only;
		// the earlier ones are empty cases and leave the switch (answered by the common tail)
		status, body, returns := int64(0), false, false
		for _, b := range blocks {
			for _, in := range b.Instrs {
				if n, ok := isStatus(in); ok {
					status = n
				}
				if isWriteBody(in) {
					body = true
				}
				if _, ok := in.(*ssa.Return); ok {
					returns = true
				}
			}
		}
		ok := len(blocks) > 0 && status >= w.min && (!w.body || body) && returns
		pos := fpos(f)
		if len(blocks) > 0 && len(blocks[0].Instrs) > 0 {
			pos = an.InstrPos(blocks[0].Instrs[0])
		}
		c.Check("R-CONST", an.FuncName(f)+"/outcome/"+e, sprintf("%s is answered with a status of at least %d%s and nothing else", e, w.min, map[bool]string{true: " and the body captured from the platform", false: ""}[w.body]), ok, pos, len(blocks), "blocks of the case: %d; status %d; writes the captured body: %v; returns: %v", len(blocks), status, body, returns)
	}
	// the timeout case writes the platform's timeout message
	tmo := false
	for _, b := range caseBlocks["ErrInvokeTimeout"] {
		for _, in := range b.Instrs {
			if call, ok := in.(*ssa.Call); ok && an.Callee(call) == "net/http.ResponseWriter.Write" {
				if cl, _ := an.CallOf(an.Strip(call.Common().Args[0], true)); cl != nil && an.Callee(cl) == "fmt.Sprintf" {
					if s, k := an.ConstString(cl.Call.Args[0]); k && strings.HasPrefix(s, "Task timed out after") {
						tmo = true
					}
				}
			}
		}
	}
	c.Check("R-CONST", an.FuncName(f)+"/outcome/ErrInvokeTimeout", "a timed-out invocation is answered with the 'Task timed out after N.00 seconds' message", tmo, fpos(f), 1, "message written in the timeout case: %v", tmo)
	// success: from the nil edge of the error test every return has written the captured body; the status is
	// copied when the platform set one
	var arm *ssa.BasicBlock
	if v := inv[0].Value(); v != nil {
		for _, r := range *v.Referrers() {
			bo, ok := r.(*ssa.BinOp)
			if !ok || !an.IsNil(bo.Y) && !an.IsNil(bo.X) {
				continue
			}
			for _, r2 := range *bo.Referrers() {
				if iff, ok := r2.(*ssa.If); ok {
					if bo.Op == token.NEQ {
						arm = iff.Block().Succs[1]
					} else if bo.Op == token.EQL {
						arm = iff.Block().Succs[0]
					}
				}
			}
		}
	}
	if arm == nil {
		c.Unresolved("ANCHOR", an.FuncName(f)+"/success-edge", "no nil test of Sandbox.Invoke's result")
		return
	}
	leak := returnReachableAvoiding(arm, isWriteBody)
	copied := false
	an.AllInstrs(f, func(in ssa.Instruction) {
		call, ok := in.(*ssa.Call)
		if !ok || an.Callee(call) != "net/http.ResponseWriter.WriteHeader" {
			return
		}
		if fr, k := an.AsField(an.Strip(call.Common().Args[0], true)); k && fr.Field == "StatusCode" {
			copied = true
		}
	})
	c.Check("R-ORDER", an.FuncName(f)+"/outcome/success", "a completed invocation is always answered with the body (and status, when set) captured from the platform", !leak && copied, fpos(f), 2, "a return is reachable on the success edge without writing the captured body: %v; captured status copied: %v", leak, copied)
}

// checkNilErrorNotHandled (R-ERRUSE, the other direction): an error value is not treated as an error on the edge
// where it has just been tested to be nil while being ignored where it is one. If the tested value is never used
// where it is known to be non-nil, then in the block entered directly by the nil edge of the test it is neither
// returned, nor passed to a call, nor stored: that would be the error handling, sitting on the wrong edge (a flipped
// test makes every success fail and lets every failure through).
func checkNilErrorNotHandled(c *report.Ctx) {
	service := serviceReachable(c)
	ntests := 0
	var bad []string
	pos := token.NoPos
	for _, f := range repoFuncs(c) {
		if !service[f] || strings.HasPrefix(an.FuncName(f), "L/testdata.") || strings.HasPrefix(an.FuncName(f), "L/rapidcore/standalone") {
			continue
		}
		for _, b := range f.Blocks {
			if len(b.Instrs) == 0 {
				continue
			}
			iff, ok := b.Instrs[len(b.Instrs)-1].(*ssa.If)
			if !ok {
				continue
			}
			bo, ok := iff.Cond.(*ssa.BinOp)
			if !ok || (bo.Op != token.NEQ && bo.Op != token.EQL) {
				continue
			}
			var e ssa.Value
			if an.IsNil(bo.Y) {
				e = bo.X
			} else if an.IsNil(bo.X) {
				e = bo.Y
			}
			if e == nil || !isErrorType(e.Type()) {
				continue
			}
			if _, isCall := an.CallOf(e); isCall < 0 {
				continue
			}
			if cl, _ := an.CallOf(e); cl == nil {
				continue // a parameter, a field, a φ: not "the error of the call just made"
			}
			ntests++
			nilEdge := b.Succs[1]
			if bo.Op == token.EQL {
				nilEdge = b.Succs[0]
			}
			if len(nilEdge.Preds) != 1 {
				continue
			}
			// is the value dealt with where it is known to be an error? then a use on the nil edge (a named result
			// returned at the end of the success path, say) is not the handling of an error
			handled := false
			facts := an.NewFacts(f)
			ev := e
			if refs := e.Referrers(); refs != nil {
				for _, r := range *refs {
					if r == ssa.Instruction(bo) {
						continue
					}
					if facts.Holds(r.Block(), func(ft an.Fact) bool { return an.CmpNil(ft, false, func(v ssa.Value) bool { return v == ev }) }) {
						handled = true
					}
				}
			}
			if handled {
				continue
			}
			for _, in := range nilEdge.Instrs {
				var rands []*ssa.Value
				used := false
				for _, r := range in.Operands(rands) {
					if *r == e {
						used = true
					}
				}
				if !used {
					continue
				}
				switch in.(type) {
				case *ssa.BinOp, *ssa.Phi:
					continue // compared again, or merged
				case *ssa.Return:
					// a named result returned at the end of the success path is this value too; only a block that
					// does nothing but return it propagates an error
					work := false
					for _, other := range nilEdge.Instrs {
						switch o := other.(type) {
						case *ssa.Go, *ssa.Defer, *ssa.Store, *ssa.Send, *ssa.MapUpdate:
							work = true
						case *ssa.Call:
							if cal := an.Callee(o); !strings.Contains(cal, "logrus") && !strings.HasPrefix(cal, "fmt.") {
								work = true
							}
						}
					}
					if work {
						continue
					}
				}
				bad = append(bad, an.FuncName(f)+": "+an.Describe(in))
				pos = an.InstrPos(in)
			}
		}
	}
	sort.Strings(bad)
	c.Check("R-ERRUSE", "nil-error-not-handled", "in no service-time function is the error of a call returned, reported or stored in the block entered by the very edge on which it was tested to be nil", len(bad) == 0 && ntests >= 50, pos, ntests, "error tests examined: %d; tested value used on its nil edge: %v", ntests, bad)
}

// checkNoEmptyCriticalSection: no mutex is released right after it was acquired (a `defer` lost in front of an
// Unlock leaves `Lock(); Unlock()` and the section it was meant to protect runs unprotected).
func checkNoEmptyCriticalSection(c *report.Ctx) {
	n := 0
	var bad []string
	pos := token.NoPos
	for _, f := range repoFuncs(c) {
		if strings.HasPrefix(an.FuncName(f), "L/testdata.") {
			continue
		}
		for _, b := range f.Blocks {
			var open ssa.Instruction
			openPath := ""
			for _, in := range b.Instrs {
				ops := an.LockOps1(in)
				switch {
				case ops.Acquire && !ops.Deferred:
					n++
					open, openPath = in, ops.Path
				case ops.Release && !ops.Deferred:
					if open != nil && ops.Path == openPath && !an.DeferOrigin(in) {
						bad = append(bad, an.FuncName(f)+": "+openPath)
						pos = an.InstrPos(in)
					}
					open = nil
				default:
					switch in.(type) {
					case *ssa.FieldAddr, *ssa.UnOp, *ssa.IndexAddr, *ssa.DebugRef:
						// address computations and loads between the two do not make a critical section... but a load is
						// a read of protected state: only pure address arithmetic is ignored
						if u, isU := in.(*ssa.UnOp); isU && u.Op == token.MUL {
							if _, isFA := u.X.(*ssa.FieldAddr); isFA {
								// reading a field: is it the mutex holder itself (s.mu path)? then ignore
								if !strings.HasSuffix(u.Type().String(), "Mutex") && !strings.HasSuffix(u.Type().String(), "Locker") && !strings.Contains(u.Type().String(), "sync.") && !strings.Contains(u.Type().String(), "Suspendable") {
									open = nil
								}
							} else {
								open = nil
							}
						}
					default:
						open = nil
					}
				}
			}
		}
	}
	sort.Strings(bad)
	c.Check("R-LOCK", "no-empty-critical-section", "no function releases a mutex immediately after acquiring it", len(bad) == 0 && n >= 40, pos, n, "acquisitions: %d; released at once: %v", n, bad)
}

// checkAppCtxPrimitives: the key space's Delete deletes and Store stores (the reset's "every key is deleted" rests on it).
func checkAppCtxPrimitives(c *report.Ctx) {
	actT := "L/appctx.applicationContext"
	if f := fn(c, "L/appctx", "(*applicationContext).Delete"); f != nil {
		n, ok, where := beforeEveryReturn(f, func(in ssa.Instruction) bool {
			call, isC := in.(*ssa.Call)
			if !isC {
				return false
			}
			b, isB := call.Call.Value.(*ssa.Builtin)
			if !isB || b.Name() != "delete" || len(call.Call.Args) != 2 {
				return false
			}
			_, isP := call.Call.Args[1].(*ssa.Parameter)
			return an.IsFieldLoad(call.Call.Args[0], actT, "m") && isP
		})
		if where == token.NoPos {
			where = fpos(f)
		}
		c.Check("R-ORDER", an.FuncName(f)+"/deletes", "Delete removes the key it is given from the context's map on every path", ok, where, n, "delete(m, key) sites: %d, on every path: %v", n, ok)
	}
	if f := fn(c, "L/appctx", "(*applicationContext).Store"); f != nil {
		n, ok, where := beforeEveryReturn(f, func(in ssa.Instruction) bool {
			mu, isM := in.(*ssa.MapUpdate)
			if !isM {
				return false
			}
			_, kP := mu.Key.(*ssa.Parameter)
			_, vP := mu.Value.(*ssa.Parameter)
			return an.IsFieldLoad(mu.Map, actT, "m") && kP && vP
		})
		if where == token.NoPos {
			where = fpos(f)
		}
		c.Check("R-ORDER", an.FuncName(f)+"/stores", "Store puts the value under the key on every path", ok, where, n, "m[key] = value sites: %d, on every path: %v", n, ok)
	}
}

// checkAgentMapsAsArray: the list of registered extensions handed to the shutdown fan-out and the status lines holds
// every registered extension.
func checkAgentMapsAsArray(c *report.Ctx) {
	for _, mp := range []string{"ExternalAgentsMap", "InternalAgentsMap"} {
		f := fn(c, coreP, "(*"+mp+").AsArray")
		if f == nil {
			continue
		}
		// an append of the element being visited, inside a range over one of the two indexes (directly, or in the
		// callback handed to Visit, which ranges over byName)
		appends, inRange := 0, false
		for _, g := range an.WithAnon(f) {
			an.AllInstrs(g, func(in ssa.Instruction) {
				call, ok := in.(*ssa.Call)
				if !ok {
					return
				}
				if b, isB := call.Call.Value.(*ssa.Builtin); isB && b.Name() == "append" {
					appends++
					if g != f || an.InLoop(in) {
						inRange = true
					}
				}
			})
		}
		visits := len(an.Calls(f, func(s string) bool { return strings.HasSuffix(s, mp+".Visit") }))
		loops := 0
		an.AllInstrs(f, func(in ssa.Instruction) {
			if r, ok := in.(*ssa.Range); ok && (an.IsFieldLoad(r.X, "L/core."+mp, "byName") || an.IsFieldLoad(r.X, "L/core."+mp, "byID")) {
				loops++
			}
		})
		c.Check("R-WIRE", an.FuncName(f)+"/every-entry", "AsArray appends every entry of the map to the slice it returns (it walks an index, itself or through Visit, and appends the visited element)", appends >= 1 && inRange && visits+loops >= 1, fpos(f), appends, "appends: %d, inside the walk: %v; Visit calls: %d, ranges over an index: %d", appends, inRange, visits, loops)
	}
}

// assumeErrIs returns the edge filter "this edge is not taken when errv is the sentinel `global`": tests of errv
// against nil and against package-level error variables are decided, everything else is left open.
func assumeErrIs(errv ssa.Value, global string) func(from, to *ssa.BasicBlock) bool {
	isErr := func(v ssa.Value) bool {
		v = an.Strip(v, false)
		if v == errv {
			return true
		}
		for _, l := range an.PhiLeaves(v) {
			if an.Strip(l, false) == errv {
				return true
			}
		}
		return false
	}
	return func(from, to *ssa.BasicBlock) bool {
		iff, ok := from.Instrs[len(from.Instrs)-1].(*ssa.If)
		if !ok || len(from.Succs) != 2 || from.Succs[0] == from.Succs[1] {
			return false
		}
		cond, neg := iff.Cond, false
		for i := 0; i < 4; i++ {
			if u, isU := cond.(*ssa.UnOp); isU && u.Op == token.NOT {
				cond, neg = u.X, !neg
				continue
			}
			break
		}
		bo, isBO := cond.(*ssa.BinOp)
		if !isBO || (bo.Op != token.EQL && bo.Op != token.NEQ) {
			return false
		}
		var other ssa.Value
		switch {
		case isErr(bo.X):
			other = bo.Y
		case isErr(bo.Y):
			other = bo.X
		default:
			return false
		}
		var eq bool
		switch {
		case an.IsNil(other):
			eq = false
		case an.GlobalOf(an.Strip(other, false)) != "":
			eq = an.GlobalOf(an.Strip(other, false)) == global
		default:
			return false
		}
		val := (eq == (bo.Op == token.EQL)) != neg
		taken := from.Succs[1]
		if val {
			taken = from.Succs[0]
		}
		return to != taken
	}
}

// checkFrontEndInitAndStatus: the front end initialises the sandbox exactly when it has not done so yet, copies a
// status only when one was set, and its proxy records the status it is given.
func checkFrontEndInitAndStatus(c *report.Ctx) {
	f := fn(c, "M/cmd/aws-lambda-rie", "InvokeHandler")
	if f == nil {
		return
	}
	isDone := func(v ssa.Value) bool { return an.IsGlobalLoad(v, "M/cmd/aws-lambda-rie.initDone") }
	n, ok := 0, true
	pos := fpos(f)
	for _, g := range an.WithAnon(f) {
		facts := an.NewFacts(g)
		for _, call := range an.CallsTo(g, "M/cmd/aws-lambda-rie.InitHandler") {
			n++
			if !facts.Holds(call.Block(), func(ft an.Fact) bool { return !ft.Val && isDone(ft.Cond) }) {
				ok = false
				pos = an.InstrPos(call)
			}
		}
	}
	c.Check("R-GUARD", an.FuncName(f)+"/initialises-when-not-done", "InitHandler runs exactly on the path where initDone is still false", ok && n == 1, pos, n, "InitHandler calls: %d, under !initDone: %v", n, ok)
	facts := an.NewFacts(f)
	ns, oks := 0, true
	an.AllInstrs(f, func(in ssa.Instruction) {
		call, isC := in.(*ssa.Call)
		if !isC || an.Callee(call) != "net/http.ResponseWriter.WriteHeader" {
			return
		}
		arg := an.Strip(call.Common().Args[0], true)
		fr, k := an.AsField(arg)
		if !k || fr.Field != "StatusCode" {
			return
		}
		ns++
		if !facts.Holds(in.Block(), func(ft an.Fact) bool {
			r, isR := an.AsRel(ft)
			if !isR {
				return false
			}
			for _, rr := range []an.Rel{r, r.Flip()} {
				if rr.X == arg || an.Path(rr.X) == an.Path(arg) {
					if z, isC := an.ConstInt(rr.Y); isC && z == 0 && rr.Op == token.NEQ {
						return true
					}
				}
			}
			return false
		}) {
			oks = false
		}
	})
	c.Check("R-GUARD", an.FuncName(f)+"/status-copied-when-set", "the captured status is written only when the platform set one (WriteHeader(0) panics)", oks && ns == 1, fpos(f), ns, "WriteHeader(captured status) sites: %d, under status != 0: %v", ns, oks)
	if wh := fn(c, "M/cmd/aws-lambda-rie", "(*ResponseWriterProxy).WriteHeader"); wh != nil {
		n2, ok2, where := beforeEveryReturn(wh, isStoreOf("M/cmd/aws-lambda-rie.ResponseWriterProxy", "StatusCode", func(v ssa.Value) bool { _, k := v.(*ssa.Parameter); return k }))
		if where == token.NoPos {
			where = fpos(wh)
		}
		c.Check("R-ORDER", an.FuncName(wh)+"/records-status", "the response proxy records the status code it is given on every path", ok2, where, n2, "stores: %d, on every path: %v", n2, ok2)
	}
}

// checkDirectInvokeOptionalHeaders: an optional header is parsed only when present (absent means the default, which
// was stored just before), and the payload-limit override is taken only for n >= -1.
func checkDirectInvokeOptionalHeaders(c *report.Ctx) {
	f := fn(c, diP, "ReceiveDirectInvoke")
	if f == nil {
		return
	}
	facts := an.NewFacts(f)
	n, ok := 0, true
	pos := fpos(f)
	for _, call := range an.CallsTo(f, "strconv.ParseInt") {
		arg := call.Common().Args[0]
		if cl, _ := an.CallOf(arg); cl == nil || an.Callee(cl) != "net/http.Header.Get" {
			continue
		}
		n++
		if !facts.Holds(call.Block(), func(ft an.Fact) bool {
			bo, isB := ft.Cond.(*ssa.BinOp)
			if !isB {
				return false
			}
			s, isC := an.ConstString(bo.Y)
			if !(isC && s == "" && bo.X == arg) {
				return false
			}
			return bo.Op == token.NEQ && ft.Val || bo.Op == token.EQL && !ft.Val
		}) {
			ok = false
			pos = an.InstrPos(call)
		}
	}
	c.Check("R-GUARD", an.FuncName(f)+"/optional-headers-parsed-when-present", "each numeric optional header is parsed only when it is present; absent, the default stored just before stays", ok && n >= 3, pos, n, "header parses: %d, all under header != \"\": %v", n, ok)
	okMax := false
	an.AllInstrs(f, func(in ssa.Instruction) {
		st, k := in.(*ssa.Store)
		if !k || globalName(st.Addr) != diP+".MaxDirectResponseSize" {
			return
		}
		if _, isC := an.Strip(st.Val, true).(*ssa.Const); isC {
			return
		}
		if g := an.GlobalOf(st.Val); g != "" {
			return
		}
		if facts.Holds(st.Block(), func(ft an.Fact) bool {
			r, isR := an.AsRel(ft)
			if !isR {
				return false
			}
			for _, rr := range []an.Rel{r, r.Flip()} {
				if rr.X == st.Val {
					if z, isC := an.ConstInt(rr.Y); isC && (rr.Op == token.GEQ && z == -1 || rr.Op == token.GTR && z == -2) {
						return true
					}
				}
			}
			return false
		}) {
			okMax = true
		}
	})
	c.Check("R-GUARD", an.FuncName(f)+"/range/MaxDirectResponseSize", "the payload limit header is taken only for values >= -1 (-1 meaning unlimited)", okMax, fpos(f), 1, "override guarded by n >= -1: %v", okMax)
}

// checkBufferedDirectClassification: on the buffered direct-invoke path the End-Of-Response trailer is set exactly
// once on every path: Truncated on a copy error, Oversized over the limit, Complete otherwise.
func checkBufferedDirectClassification(c *report.Ctx) {
	g := fn(c, diP, "sendPayloadLimitedResponse")
	if g == nil {
		return
	}
	name := an.FuncName(g)
	facts := an.NewFacts(g)
	isTrailer := func(in ssa.Instruction) bool {
		call, ok := in.(ssa.CallInstruction)
		if !ok || an.Callee(call) != "net/http.Header.Set" {
			return false
		}
		s, k := an.ConstString(call.Common().Args[1])
		return k && s == "End-Of-Response"
	}
	// only the paths past the mode parsing (an early refusal sets no trailer)
	vals := map[string]string{}
	ntr := 0
	an.AllInstrs(g, func(in ssa.Instruction) {
		if !isTrailer(in) {
			return
		}
		ntr++
		call := in.(ssa.CallInstruction)
		v, _ := an.ConstString(call.Common().Args[2])
		cond := "else"
		if facts.Holds(in.Block(), func(ft an.Fact) bool {
			return an.CmpNil(ft, false, func(x ssa.Value) bool { return an.IsResultOf(x, "io.Copy", 1) })
		}) {
			cond = "copy-error"
		}
		if v == "Oversized" {
			cond = "oversized"
		}
		vals[cond] = v
	})
	copies := an.CallsTo(g, "io.Copy")
	once := false
	if len(copies) == 1 {
		ord := an.NewOrder(g, func(in ssa.Instruction) uint64 {
			if isTrailer(in) {
				return 1
			}
			return 0
		})
		once = true
		for _, e := range an.Exits(g) {
			if !an.InstrDominates(copies[0], e.Ret) {
				continue
			}
			if must, _ := ord.Before(e.Ret); must&1 == 0 {
				once = false
			}
		}
	}
	_, max := an.Count(g, isTrailer)
	c.Check("R-CONST", name+"/classification", "after the copy the End-Of-Response trailer is set on every path, once: Truncated exactly on a copy error, Oversized over the limit, Complete otherwise", once && max == 1 && ntr == 3 && vals["copy-error"] == "Truncated" && vals["oversized"] == "Oversized" && vals["else"] == "Complete", fpos(g), ntr, "trailer sites: %d; set on every path after the copy: %v; at most once: %v; values: %v", ntr, once, max == 1, vals)
}

// checkLaunchErrorClasses: the class of a launch error shown in the extension's status line.
func checkLaunchErrorClasses(c *report.Ctx) {
	f := fn(c, coreP, "MapErrorToAgentInfoErrorType")
	if f == nil || len(f.Params) != 1 {
		return
	}
	facts := an.NewFacts(f)
	konst := func(name string) string {
		k := c.P.Const(coreP, name)
		if k == nil {
			return "?" + name
		}
		s, _ := an.ConstString(k.Value)
		return s
	}
	isPerm := func(ft an.Fact) bool {
		cl, _ := an.CallOf(ft.Cond)
		return ft.Val && cl != nil && an.Callee(cl) == "os.IsPermission" && cl.Call.Args[0] == ssa.Value(f.Params[0])
	}
	isTooMany := func(ft an.Fact) bool {
		return an.CmpEq(ft, true, func(v ssa.Value) bool { return v == ssa.Value(f.Params[0]) }, func(v ssa.Value) bool { return an.GlobalOf(v) == "L/core.ErrTooManyExtensions" })
	}
	got := map[string]string{}
	for _, e := range an.Exits(f) {
		if len(e.Vals) != 1 {
			continue
		}
		s, isConst := an.ConstString(e.Vals[0])
		if !isConst {
			continue
		}
		cond := "otherwise"
		if facts.Holds(e.Ret.Block(), isPerm) {
			cond = "os.IsPermission"
		} else if facts.Holds(e.Ret.Block(), isTooMany) {
			cond = "ErrTooManyExtensions"
		}
		got[cond] = s
	}
	// the same classification written as a package-level table of {predicate, class} rows consulted in order
	if got["os.IsPermission"] == "" && got["ErrTooManyExtensions"] == "" {
		for _, row := range globalTableRows(c, coreP, f) {
			var pred *ssa.Function
			cls := ""
			for _, v := range row {
				switch x := an.Strip(v, false).(type) {
				case *ssa.Function:
					pred = x
				case *ssa.MakeClosure:
					pred, _ = x.Fn.(*ssa.Function)
				}
				if s, isC := an.ConstString(v); isC {
					cls = s
				}
			}
			if pred == nil || cls == "" {
				continue
			}
			if pred.String() == "os.IsPermission" {
				got["os.IsPermission"] = cls
				continue
			}
			an.AllInstrs(pred, func(in ssa.Instruction) {
				if bo, isB := in.(*ssa.BinOp); isB && bo.Op == token.EQL && (an.GlobalOf(bo.Y) == "L/core.ErrTooManyExtensions" || an.GlobalOf(bo.X) == "L/core.ErrTooManyExtensions") {
					got["ErrTooManyExtensions"] = cls
				}
			})
		}
	}
	ok := got["os.IsPermission"] == konst("PermissionDenied") && got["ErrTooManyExtensions"] == konst("TooManyExtensions") && got["otherwise"] == konst("UnknownError")
	c.Check("R-GUARD", an.FuncName(f)+"/classes", "a launch error is reported as PermissionDenied exactly when os.IsPermission says so, as TooManyExtensions exactly for that sentinel, as UnknownError otherwise", ok, fpos(f), len(got), "decoded: %v", got)
}

// globalTableRows: the rows of a package-level array literal that f indexes in a loop: for each constant index,
// the values the package initialiser stores into the element's fields.
func globalTableRows(c *report.Ctx, pkg string, f *ssa.Function) [][]ssa.Value {
	var g *ssa.Global
	an.AllInstrs(f, func(in ssa.Instruction) {
		if ia, ok := in.(*ssa.IndexAddr); ok && an.InLoop(in) {
			if gl, isG := ia.X.(*ssa.Global); isG {
				g = gl
			}
		}
	})
	if g == nil {
		return nil
	}
	rows := map[int64][]ssa.Value{}
	for _, fn := range []*ssa.Function{g.Pkg.Func("init")} {
		if fn == nil {
			continue
		}
		an.AllInstrs(fn, func(in ssa.Instruction) {
			st, ok := in.(*ssa.Store)
			if !ok {
				return
			}
			fa, ok := st.Addr.(*ssa.FieldAddr)
			if !ok {
				return
			}
			ia, ok := fa.X.(*ssa.IndexAddr)
			if !ok || ia.X != ssa.Value(g) {
				return
			}
			if k, isC := an.ConstInt(ia.Index); isC {
				rows[k] = append(rows[k], st.Val)
			}
		})
	}
	var keys []int64
	for k := range rows {
		keys = append(keys, k)
	}
	sort.Slice(keys, func(i, j int) bool { return keys[i] < keys[j] })
	var out [][]ssa.Value
	for _, k := range keys {
		out = append(out, rows[k])
	}
	return out
}
