// Package load type-checks /repo's current working tree and builds the SSA
// program and (lazily) the VTA call graph that all rules work on.
package load

import (
	_ "embed"
	"fmt"
	"go/token"
	"go/types"
	"os"
	"sort"
	"strings"
	"time"

	"golang.org/x/tools/go/callgraph"
	"golang.org/x/tools/go/callgraph/cha"
	"golang.org/x/tools/go/callgraph/vta"
	"golang.org/x/tools/go/packages"
	"golang.org/x/tools/go/ssa"
	"golang.org/x/tools/go/ssa/ssautil"
)

// ModulePath is the module path of the analysed repository.
const ModulePath = "go.amzn.com"

// MinRootPackages is the number of non-test packages confirmed by hand on the
// pinned tree; loading fewer means the loader did not see the whole build.
const MinRootPackages = 25

type Program struct {
	RepoDir  string
	GOARCH   string
	Tests    bool
	Fset     *token.FileSet
	Roots    []*packages.Package
	Prog     *ssa.Program
	SSAPkgs  map[string]*ssa.Package // by import path (non-test variants)
	RepoFns  []*ssa.Function         // every function (incl. closures, methods) declared in go.amzn.com/..., non-test files
	TestFns  []*ssa.Function         // functions declared in _test.go files (only when Tests)
	cg       *callgraph.Graph
	LoadSecs float64

	// analysis normal form (norm.go)
	Norm     *ssa.VerifNorm
	Absorbed map[*ssa.Function]bool // glue functions absorbed into their callers (not in RepoFns, not in the call graph)
	Glue     []string               // names of the functions not in the baseline table, with what happened to each
}

// Load loads ./... of repoDir. It fails (error) on any type error, on a package
// count below MinRootPackages, or when nothing could be loaded.
func Load(repoDir, goarch string, tests bool) (*Program, error) {
	t0 := time.Now()
	env := []string{}
	for _, e := range os.Environ() {
		if strings.HasPrefix(e, "GOFLAGS=") || strings.HasPrefix(e, "GOWORK=") || strings.HasPrefix(e, "GOARCH=") ||
			strings.HasPrefix(e, "GOPROXY=") || strings.HasPrefix(e, "GOSUMDB=") || strings.HasPrefix(e, "GOTOOLCHAIN=") {
			continue
		}
		env = append(env, e)
	}
	env = append(env, "GOFLAGS=-mod=mod", "GOWORK=off", "GOPROXY=off", "GOSUMDB=off", "GOTOOLCHAIN=local", "CGO_ENABLED=0")
	if goarch != "" {
		env = append(env, "GOARCH="+goarch)
	}
	fset := token.NewFileSet()
	cfg := &packages.Config{
		Mode:  packages.LoadAllSyntax,
		Dir:   repoDir,
		Env:   env,
		Fset:  fset,
		Tests: tests,
	}
	pkgs, err := packages.Load(cfg, "./...")
	if err != nil {
		return nil, fmt.Errorf("packages.Load: %v", err)
	}
	var errs []string
	packages.Visit(pkgs, nil, func(p *packages.Package) {
		for _, e := range p.Errors {
			errs = append(errs, fmt.Sprintf("%s: %s", p.PkgPath, e.Error()))
		}
	})
	if len(errs) > 0 {
		sort.Strings(errs)
		if len(errs) > 10 {
			errs = errs[:10]
		}
		return nil, fmt.Errorf("type/load errors (build is not clean):\n  %s", strings.Join(errs, "\n  "))
	}
	nroots := 0
	for _, p := range pkgs {
		if strings.HasPrefix(p.PkgPath, ModulePath) && !strings.HasSuffix(p.ID, ".test") && !strings.Contains(p.ID, "[") {
			nroots++
		}
	}
	if nroots < MinRootPackages {
		return nil, fmt.Errorf("loaded only %d packages of %s (expected >= %d)", nroots, ModulePath, MinRootPackages)
	}

	prog, _ := ssautil.AllPackages(pkgs, ssa.InstantiateGenerics)
	prog.Build()
	absorbed, norm, glueNotes, err := normalise(prog)
	if err != nil {
		return nil, err
	}

	p := &Program{Norm: norm, Absorbed: absorbed, Glue: glueNotes, RepoDir: repoDir, GOARCH: goarch, Tests: tests, Fset: fset, Roots: pkgs, Prog: prog, SSAPkgs: map[string]*ssa.Package{}}
	for _, sp := range prog.AllPackages() {
		if sp == nil || sp.Pkg == nil {
			continue
		}
		path := sp.Pkg.Path()
		if !strings.HasPrefix(path, ModulePath) {
			continue
		}
		// With Tests=true there are several variants of a package; prefer the
		// plain one for lookups (its functions are a subset of the test variant's).
		if old, ok := p.SSAPkgs[path]; ok {
			if len(old.Members) >= len(sp.Members) {
				continue
			}
			if !tests {
				continue
			}
		}
		p.SSAPkgs[path] = sp
	}
	seen := map[*ssa.Function]bool{}
	var addFn func(fn *ssa.Function)
	addFn = func(fn *ssa.Function) {
		if fn == nil || seen[fn] {
			return
		}
		seen[fn] = true
		if fn.Blocks == nil && fn.Synthetic == "" {
			// external (no body)
		}
		if fn.Synthetic != "" && fn.Syntax() == nil && !PromoWrapper[fn] && !BoundAdopted[fn] {
			// wrappers/thunks: analysed through their targets
		} else {
			file := ""
			if fn.Pos().IsValid() {
				file = fset.Position(fn.Pos()).Filename
			}
			if strings.HasSuffix(file, "_test.go") {
				p.TestFns = append(p.TestFns, fn)
			} else {
				p.RepoFns = append(p.RepoFns, fn)
			}
		}
		for _, a := range fn.AnonFuncs {
			addFn(a)
		}
	}
	for fn := range ssautil.AllFunctions(prog) {
		if fn.Pkg == nil || fn.Pkg.Pkg == nil || !strings.HasPrefix(fn.Pkg.Pkg.Path(), ModulePath) {
			continue
		}
		if fn.Parent() != nil {
			continue // reached through parent
		}
		if absorbed[fn] {
			continue // glue absorbed into its callers
		}
		addFn(fn)
	}
	// promotion wrappers of embedded helper structs stand for the outer type's methods; they belong to no ssa package
	for fn := range PromoWrapper {
		// (only those that stand for a method the pinned type had; a new helper method promoted along is absorbed
		// into its callers and read there)
		if fn.Parent() == nil && !absorbed[fn] && InBaseline(fn) {
			addFn(fn)
		}
	}
	sort.Slice(p.RepoFns, func(i, j int) bool { return p.RepoFns[i].String() < p.RepoFns[j].String() })
	sort.Slice(p.TestFns, func(i, j int) bool { return p.TestFns[i].String() < p.TestFns[j].String() })
	p.LoadSecs = time.Since(t0).Seconds()
	return p, nil
}

// CallGraph returns the VTA call graph (seeded with CHA), built on first use.
func (p *Program) CallGraph() *callgraph.Graph {
	if p.cg == nil {
		p.cg = vta.CallGraph(ssautil.AllFunctions(p.Prog), cha.CallGraph(p.Prog))
		for fn, n := range p.cg.Nodes {
			top := fn
			for top != nil && top.Parent() != nil {
				top = top.Parent()
			}
			if p.Absorbed[top] {
				p.cg.DeleteNode(n)
			}
		}
	}
	return p.cg
}

// Pos renders a position relative to the repo root.
func (p *Program) Pos(pos token.Pos) string {
	if !pos.IsValid() {
		return "?"
	}
	ps := p.Fset.Position(pos)
	f := strings.TrimPrefix(ps.Filename, p.RepoDir+"/")
	return fmt.Sprintf("%s:%d", f, ps.Line)
}

// Pkg returns the SSA package for an import path ("L/core" = go.amzn.com/lambda/core).
func (p *Program) Pkg(path string) *ssa.Package {
	return p.SSAPkgs[Expand(path)]
}

// Expand expands the "L/" and "M/" prefixes used in rule tables.
func Expand(path string) string {
	if strings.HasPrefix(path, "L/") {
		return ModulePath + "/lambda/" + path[2:]
	}
	if strings.HasPrefix(path, "M/") {
		return ModulePath + "/" + path[2:]
	}
	return path
}

// Abbrev is the inverse of Expand, for printing.
func Abbrev(s string) string {
	s = strings.ReplaceAll(s, ModulePath+"/lambda/", "L/")
	s = strings.ReplaceAll(s, ModulePath+"/", "M/")
	return s
}

// Func looks up a function or method: Func("L/core", "NewGate"),
// Func("L/core", "(*gateImpl).SetCount"), Func("L/rapid", "doInvoke$1").
func (p *Program) Func(pkg, name string) *ssa.Function {
	if fn := p.funcByDeclaredName(pkg, name); fn != nil {
		return fn
	}
	// a function recognised as renamed carries its old name in the SSA program but is filed under its
	// new name in the package: look it up by the name it carries
	base, anon := name, ""
	if i := strings.Index(name, "$"); i >= 0 {
		base, anon = name[:i], name[i:]
	}
	want := Expand(pkg) + "." + base
	if strings.HasPrefix(base, "(") {
		if end := strings.Index(base, ")."); end > 0 {
			recv := base[1:end]
			star := ""
			if strings.HasPrefix(recv, "*") {
				star, recv = "*", recv[1:]
			}
			want = "(" + star + Expand(pkg) + "." + recv + ")" + base[end+1:]
		}
	}
	for _, fn := range p.RepoFns {
		if fn.Parent() == nil && canonName(fn) == want {
			if anon == "" {
				return fn
			}
			for _, part := range strings.Split(anon[1:], "$") {
				var next *ssa.Function
				for _, a := range fn.AnonFuncs {
					if strings.HasSuffix(a.Name(), "$"+part) {
						next = a
					}
				}
				if next == nil {
					return nil
				}
				fn = next
			}
			return fn
		}
	}
	return nil
}

func (p *Program) funcByDeclaredName(pkg, name string) *ssa.Function {
	sp := p.Pkg(pkg)
	if sp == nil {
		return nil
	}
	base, anon := name, ""
	if i := strings.Index(name, "$"); i >= 0 {
		base, anon = name[:i], name[i:]
	}
	var fn *ssa.Function
	if strings.HasPrefix(base, "(") {
		// (*T).M or (T).M
		end := strings.Index(base, ").")
		if end < 0 {
			return nil
		}
		recv, m := base[1:end], base[end+2:]
		ptr := strings.HasPrefix(recv, "*")
		recv = strings.TrimPrefix(recv, "*")
		tm := sp.Type(recv)
		if tm == nil {
			return nil
		}
		var t types.Type = tm.Type()
		if ptr {
			t = types.NewPointer(t)
		}
		sel := p.Prog.MethodSets.MethodSet(t).Lookup(sp.Pkg, m)
		if sel == nil {
			return nil
		}
		fn = p.Prog.MethodValue(sel)
		// Do not return a promoted-method wrapper as if it were declared on T.
		if fn != nil && fn.Synthetic != "" && !PromoWrapper[fn] {
			return nil
		}
	} else {
		fn = sp.Func(base)
	}
	if fn == nil || anon == "" {
		return fn
	}
	// walk $1$2...
	for _, part := range strings.Split(anon[1:], "$") {
		var next *ssa.Function
		for _, a := range fn.AnonFuncs {
			if strings.HasSuffix(a.Name(), "$"+part) {
				next = a
			}
		}
		if next == nil {
			return nil
		}
		fn = next
	}
	return fn
}

// Named returns the named type pkg.name or nil.
func (p *Program) Named(pkg, name string) *types.Named {
	sp := p.Pkg(pkg)
	if sp == nil {
		return nil
	}
	tm := sp.Type(name)
	if tm == nil {
		for nw, old := range TypeAlias {
			if old == Expand(pkg)+"."+name {
				tm = sp.Type(nw[strings.LastIndex(nw, ".")+1:])
			}
		}
	}
	if tm == nil {
		return nil
	}
	n, _ := types.Unalias(tm.Type()).(*types.Named)
	return n
}

// Const returns the package-level constant or nil.
func (p *Program) Const(pkg, name string) *ssa.NamedConst {
	sp := p.Pkg(pkg)
	if sp == nil {
		return nil
	}
	return sp.Const(name)
}

// Global returns the package-level variable or nil.
func (p *Program) Global(pkg, name string) *ssa.Global {
	sp := p.Pkg(pkg)
	if sp == nil {
		return nil
	}
	return sp.Var(name)
}
