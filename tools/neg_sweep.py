#!/usr/bin/env python3
"""Applies every behaviour-preserving variant in selftest/ALL/neg-*.diff (one at a time, scratch copy) and runs ALL
registered checks on it: none may raise a violation or become undecided. Writes selftest/ALL/RESULT.md."""
import glob, json, os, shutil, subprocess, sys, tempfile
HERE = os.path.abspath(os.path.join(os.path.dirname(os.path.abspath(__file__)), ".."))
ENV = dict(os.environ, GOFLAGS="-mod=mod", GOPROXY="off", GOSUMDB="off", GOTOOLCHAIN="local"); ENV.pop("GOWORK", None)
props = subprocess.run([os.path.join(HERE, "bin", "riecheck"), "-property", "list"], capture_output=True, text=True).stdout.split()
rows, bad = [], 0
GLOB = os.environ.get("NEG_GLOB", os.path.join(HERE, "selftest", "ALL", "neg-*.diff"))
RESULT = os.environ.get("NEG_RESULT", os.path.join(HERE, "selftest", "ALL", "RESULT.md"))
BIN = os.environ.get("RIECHECK_BIN", os.path.join(HERE, "bin", "riecheck"))
only = sys.argv[1:]
for p in sorted(glob.glob(GLOB)):
    if only and not any(o in p for o in only): continue
    scratch = tempfile.mkdtemp(prefix="rie-neg-")
    try:
        dst = os.path.join(scratch, "repo")
        shutil.copytree("/repo", dst, ignore=shutil.ignore_patterns(".git"))
        if subprocess.run(["git", "apply", "--whitespace=nowarn", p], cwd=dst).returncode != 0:
            rows.append((p.replace(HERE + "/selftest/ALL/", ""), "does not apply", [])); continue
        b = subprocess.run(["go", "build", "./..."], cwd=dst, env=ENV, capture_output=True, text=True)
        if b.returncode != 0:
            rows.append((p.replace(HERE + "/selftest/ALL/", ""), "does not compile: " + b.stderr[:120], [])); continue
        if os.environ.get("NEG_SKIP_SUITE"):
            suite = "suite not re-run"
        else:
            t = subprocess.run(["go", "test", "-vet=off", "-count=1", "./..."], cwd=dst, env=ENV, capture_output=True, text=True)
            suite = "suite ok" if t.returncode == 0 else "SUITE FAILS"
        procs = {q: subprocess.Popen([BIN, "-property", q, "-repo", dst, "-verif", HERE, "-no-evidence"], env=ENV, stdout=subprocess.PIPE, text=True) for q in props}
        fired = []
        for q, pr in procs.items():
            out = pr.communicate()[0]
            if pr.returncode != 0:
                keys = [l.strip() for l in out.splitlines() if l.strip().startswith(("violated ", "UNRESOLVED", "ERROR"))][:2]
                fired.append("%s(rc=%d): %s" % (q, pr.returncode, "; ".join(keys)))
        rows.append((p.replace(HERE + "/selftest/ALL/", ""), suite, fired))
        if fired: bad += 1
        print(p, suite, "->", fired or "silent", flush=True)
    finally:
        shutil.rmtree(scratch, ignore_errors=True)
with open(RESULT, "w") as f:
    f.write("# Behaviour-preserving variants vs all %d checks (tools/neg_sweep.py)\n\n| variant | suite | checks that fired |\n|---|---|---|\n" % len(props))
    for n, s, fired in rows:
        f.write("| %s | %s | %s |\n" % (n, s, "; ".join(fired) or "none"))
sys.exit(1 if bad else 0)
